use super::*;
use arrow_buffer::bit_util::get_bit;

#[kani::proof]
#[kani::unwind(12)]
fn equal_bits_sound_and_complete() {
    let l: [u8; 16] = kani::any();
    let r: [u8; 16] = kani::any();
    let lo: usize = kani::any();
    let ro: usize = kani::any();
    let len: usize = kani::any();
    kani::assume(lo <= 40 && ro <= 40 && len <= 80);
    let got = equal_bits(&l, &r, lo, ro, len);
    let i: usize = kani::any();
    kani::assume(i < len);
    if got {
        assert!(get_bit(&l, lo + i) == get_bit(&r, ro + i));
    }
    // completeness: if the bit ranges differ somewhere the answer is false
    if get_bit(&l, lo + i) != get_bit(&r, ro + i) {
        assert!(!got);
    }
}
