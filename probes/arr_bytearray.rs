use super::*;
use arrow_buffer::{Buffer, OffsetBuffer, ScalarBuffer};
use crate::types::{Utf8Type, BinaryType};

fn stub_format(_a: std::fmt::Arguments<'_>) -> String { String::new() }

// Utf8 try_new from a valid OffsetBuffer and arbitrary bytes: Ok => every value is valid UTF-8
// and lies inside `values`; then value(i) is memory safe (Kani's own checks)
#[kani::proof]
#[kani::unwind(8)]
#[kani::stub(alloc::fmt::format, stub_format)]
fn utf8_try_new_sound() {
    let o1: i32 = kani::any();
    let o2: i32 = kani::any();
    kani::assume(0 <= o1 && o1 <= o2 && o2 <= 6);
    let vals: [u8; 4] = kani::any();
    let vlen: usize = kani::any();
    kani::assume(vlen <= 4);
    let offsets = unsafe { OffsetBuffer::new_unchecked(ScalarBuffer::from(vec![0i32, o1, o2])) };
    let values = Buffer::from_vec(vals[..vlen].to_vec());
    let r = GenericByteArray::<Utf8Type>::try_new(offsets, values, None);
    match r {
        Ok(a) => {
            assert!((o2 as usize) <= vlen);
            assert!(std::str::from_utf8(&vals[..o1 as usize]).is_ok());
            assert!(std::str::from_utf8(&vals[o1 as usize..o2 as usize]).is_ok());
            let i: usize = kani::any();
            kani::assume(i < 2);
            let v = a.value(i);
            assert!(v.len() == if i == 0 { o1 as usize } else { (o2 - o1) as usize });
            std::mem::forget(a);
        }
        Err(e) => { std::mem::forget(e); }
    }
}

#[kani::proof]
#[kani::unwind(8)]
#[kani::stub(alloc::fmt::format, stub_format)]
fn binary_try_new_sound() {
    let o1: i32 = kani::any();
    let o2: i32 = kani::any();
    kani::assume(0 <= o1 && o1 <= o2 && o2 <= 6);
    let vals: [u8; 4] = kani::any();
    let vlen: usize = kani::any();
    kani::assume(vlen <= 4);
    let offsets = unsafe { OffsetBuffer::new_unchecked(ScalarBuffer::from(vec![0i32, o1, o2])) };
    let values = Buffer::from_vec(vals[..vlen].to_vec());
    let r = GenericByteArray::<BinaryType>::try_new(offsets, values, None);
    match r {
        Ok(a) => {
            assert!((o2 as usize) <= vlen);
            let i: usize = kani::any();
            kani::assume(i < 2);
            let v = a.value(i);
            assert!(v.len() == if i == 0 { o1 as usize } else { (o2 - o1) as usize });
            std::mem::forget(a);
        }
        Err(e) => { std::mem::forget(e); }
    }
}
