use super::*;

fn check<const V: usize, const Z: usize>() {
    let vals: [i8; V] = kani::any();
    let mut valids: [(u32, i8); V] = [(0, 0); V];
    let mut i = 0;
    while i < V { valids[i] = (i as u32, vals[i]); i += 1; }
    let mut nulls: [u32; Z] = [0; Z];
    let mut j = 0;
    while j < Z { nulls[j] = (V + j) as u32; j += 1; }
    let n = V + Z;
    let opts = SortOptions { descending: kani::any(), nulls_first: kani::any() };
    let limit: Option<usize> = if kani::any() { let l: usize = kani::any(); kani::assume(l <= n + 1); Some(l) } else { None };
    let out = sort_impl(opts, &mut valids, &nulls, limit, |a: i8, b: i8| a.cmp(&b));
    let want = match limit { Some(l) => l.min(n), None => n };
    assert!(out.len() == want);
    let p: usize = kani::any();
    kani::assume(p + 1 < out.len());
    let (x, y) = (out[p] as usize, out[p + 1] as usize);
    assert!(x < n && y < n && x != y);
    let xn = x >= V;
    let yn = y >= V;
    if xn != yn {
        assert!(xn == opts.nulls_first);
    } else if !xn {
        if opts.descending { assert!(vals[x] >= vals[y]); } else { assert!(vals[x] <= vals[y]); }
    }
    std::mem::forget(out);
}

#[kani::proof]
#[kani::unwind(6)]
fn sort_impl_i8_3_1() { check::<3, 1>(); }
