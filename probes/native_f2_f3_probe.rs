use std::sync::Arc;
use arrow_array::{ArrayRef, Int32Array, RecordBatch};
use bytes::Bytes;
use parquet::arrow::arrow_reader::ParquetRecordBatchReaderBuilder;
use parquet::arrow::ArrowWriter;
use parquet::basic::{Compression, Encoding};
use parquet::file::metadata::ParquetMetaDataReader;
use parquet::file::properties::{WriterProperties, WriterVersion};

fn f2() {
    // FileMetaData with an unknown field (id 20) of type list<bool> announcing 2^31-1 elements
    for outer in [1usize, 3] {
        let mut bytes: Vec<u8> = vec![0x15, 0x02]; // field 1 version = 1
        // unknown field 20, type list (9): long form header: 0x09, zigzag(20)=40
        bytes.extend_from_slice(&[0x09, 0x28]);
        if outer == 1 {
            bytes.extend_from_slice(&[0xF1, 0xFF, 0xFF, 0xFF, 0xFF, 0x07]);
        } else {
            // list<list<bool>> with `outer` inner lists
            bytes.push(((outer as u8) << 4) | 0x09);
            for _ in 0..outer { bytes.extend_from_slice(&[0xF1, 0xFF, 0xFF, 0xFF, 0xFF, 0x07]); }
        }
        bytes.push(0x00);
        let t = std::time::Instant::now();
        let r = ParquetMetaDataReader::decode_metadata(&bytes);
        println!("F2 outer={outer}: {} input bytes -> {:?} after {:?}", bytes.len(), r.map(|_| ()).map_err(|e| e.to_string()), t.elapsed());
    }
}

fn f3() {
    let col: ArrayRef = Arc::new(Int32Array::from_iter_values((0..256).map(|i: i32| (i * 7919) % 1000)));
    let batch = RecordBatch::try_from_iter([("c", col)]).unwrap();
    let props = WriterProperties::builder()
        .set_writer_version(WriterVersion::PARQUET_2_0)
        .set_dictionary_enabled(false)
        .set_encoding(Encoding::DELTA_BINARY_PACKED)
        .set_compression(Compression::UNCOMPRESSED)
        .build();
    let mut buf = Vec::new();
    let mut w = ArrowWriter::try_new(&mut buf, batch.schema(), Some(props)).unwrap();
    w.write(&batch).unwrap();
    let meta = w.close().unwrap();
    let _ = meta;
    // locate the column chunk and overwrite the start of the page payload with continuation bytes
    let md = ParquetMetaDataReader::new().parse_and_finish(&Bytes::from(buf.clone())).unwrap();
    let cc = md.row_group(0).column(0);
    let start = cc.data_page_offset() as usize;
    let end = start + cc.compressed_size() as usize;
    println!("F3: column chunk bytes {start}..{end}");
    // the page header is thrift; the payload follows. Overwrite the last (end-start)/2.. region start:
    // find the payload start as end - uncompressed payload length is unknown, so corrupt 11 bytes
    // right after the header by scanning for the DELTA header block size varint (128 = 0x80 0x01)
    let hay = &buf[start..end];
    let pos = hay.windows(3).rposition(|w| w == [0x80, 0x01, 0x04]).expect("delta header");
    for b in &mut buf[start + pos..start + pos + 11] { *b = 0xFF; }
    let r = std::panic::catch_unwind(|| {
        let reader = ParquetRecordBatchReaderBuilder::try_new(Bytes::from(buf)).unwrap().build().unwrap();
        for b in reader { match b { Ok(b) => println!("F3: read batch of {} rows", b.num_rows()), Err(e) => { println!("F3: error {e}"); break; } } }
    });
    println!("F3: panicked = {}", r.is_err());
}

fn main() {
    let which = std::env::args().nth(1).unwrap_or_default();
    if which == "f3" { f3() } else { f2() }
}
