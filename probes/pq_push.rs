use super::*;

#[kani::proof]
#[kani::unwind(5)]
fn push_buffers_containment() {
    static FILE: [u8; 16] = [0, 1, 2, 3, 4, 5, 6, 7, 8, 9, 10, 11, 12, 13, 14, 15];
    let mut pb = PushBuffers::new(16);
    let mut k = 0;
    let mut starts = [0u64; 2];
    let mut ends = [0u64; 2];
    while k < 2 {
        let s: u64 = kani::any();
        let e: u64 = kani::any();
        kani::assume(s <= e && e <= 16);
        starts[k] = s; ends[k] = e;
        let r = pb.push_range(s..e, Bytes::from_static(&FILE[s as usize..e as usize]));
        assert!(r.is_ok());
        k += 1;
    }
    let qs: u64 = kani::any();
    let ql: usize = kani::any();
    kani::assume(qs <= 16 && ql <= 16 && qs + ql as u64 <= 16);
    let contained = (starts[0] <= qs && qs + ql as u64 <= ends[0]) || (starts[1] <= qs && qs + ql as u64 <= ends[1]);
    assert!(pb.has_range(&(qs..qs + ql as u64)) == contained);
    match pb.get_bytes(qs, ql) {
        Ok(b) => {
            assert!(contained);
            assert!(b.len() == ql);
            let i: usize = kani::any();
            kani::assume(i < ql);
            assert!(b[i] == FILE[qs as usize + i]);
            std::mem::forget(b);
        }
        Err(_e) => { assert!(!contained); std::mem::forget(_e); }
    }
    std::mem::forget(pb);
}
