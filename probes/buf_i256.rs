use crate::i256;

// reference: 256-bit arithmetic on four u64 limbs (schoolbook), independent of mulx/i256 internals
fn limbs(x: i256) -> [u64; 4] {
    let (lo, hi) = x.to_parts();
    [lo as u64, (lo >> 64) as u64, hi as u64, ((hi as u128) >> 64) as u64]
}

#[kani::proof]
fn i256_add_ref() {
    let a = i256::from_parts(kani::any(), kani::any());
    let b = i256::from_parts(kani::any(), kani::any());
    let la = limbs(a);
    let lb = limbs(b);
    let mut carry = 0u128;
    let mut r = [0u64; 4];
    let mut i = 0;
    while i < 4 {
        let s = la[i] as u128 + lb[i] as u128 + carry;
        r[i] = s as u64;
        carry = s >> 64;
        i += 1;
    }
    let w = a.wrapping_add(b);
    assert!(limbs(w) == r);
    let sa = a.is_negative();
    let sb = b.is_negative();
    let sr = (r[3] >> 63) == 1;
    let ovf = sa == sb && sr != sa;
    assert!(a.checked_add(b).is_none() == ovf);
    if let Some(c) = a.checked_add(b) {
        assert!(limbs(c) == r);
    }
}

#[kani::proof]
fn i256_mul_ref() {
    let a = i256::from_parts(kani::any(), kani::any());
    let b = i256::from_parts(kani::any(), kani::any());
    let la = limbs(a);
    let lb = limbs(b);
    // low 256 bits of the product, schoolbook
    let mut r = [0u64; 4];
    let mut i = 0;
    while i < 4 {
        let mut carry = 0u128;
        let mut j = 0;
        while i + j < 4 {
            let t = (la[i] as u128) * (lb[j] as u128) + r[i + j] as u128 + carry;
            r[i + j] = t as u64;
            carry = t >> 64;
            j += 1;
        }
        i += 1;
    }
    assert!(limbs(a.wrapping_mul(b)) == r);
}
