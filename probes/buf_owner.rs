use crate::{Buffer, MutableBuffer};

// bounded history: clone / slice / into_mutable+mutate / drop on a Vec-backed buffer.
// Kani's memory model checks use-after-free and double free on every access; the harness
// checks that a live alias never observes a mutation.
#[kani::proof]
#[kani::unwind(10)]
fn into_mutable_never_mutates_shared() {
    let data: [u8; 8] = kani::any();
    let a = Buffer::from_vec(data.to_vec());
    let keep_alias: bool = kani::any();
    let off: usize = kani::any();
    let len: usize = kani::any();
    kani::assume(off <= 8 && len <= 8 - off);
    let view = a.slice_with_length(off, len);
    let alias = if keep_alias { Some(a.clone()) } else { None };
    drop(a);
    match view.into_mutable() {
        Ok(mut m) => {
            // only legal when unique and unsliced
            assert!(!keep_alias);
            assert!(off == 0);
            assert!(m.len() == len);
            let s = m.as_slice_mut();
            let mut i = 0;
            while i < s.len() { s[i] = !s[i]; i += 1; }
            drop(m);
        }
        Err(b) => {
            assert!(b.len() == len);
            let mut i = 0;
            while i < len { assert!(b.as_slice()[i] == data[off + i]); i += 1; }
            drop(b);
        }
    }
    if let Some(al) = alias {
        let mut i = 0;
        while i < 8 { assert!(al.as_slice()[i] == data[i]); i += 1; }
    }
}

use std::ptr::NonNull;
use std::sync::Arc;

static mut DROPS: u32 = 0;
struct Owner { mem: [u8; 8] }
impl Drop for Owner { fn drop(&mut self) { unsafe { DROPS += 1; } } }

// custom-owned region: released exactly once, after the last handle, in any drop order;
// in-place conversion always declines
#[kani::proof]
#[kani::unwind(10)]
fn custom_owner_released_once() {
    let data: [u8; 8] = kani::any();
    let owner = Arc::new(Owner { mem: data });
    let ptr = NonNull::new(owner.mem.as_ptr() as *mut u8).unwrap();
    let a = unsafe { Buffer::from_custom_allocation(ptr, 8, owner) };
    let off: usize = kani::any();
    let len: usize = kani::any();
    kani::assume(off <= 8 && len <= 8 - off);
    let b = a.slice_with_length(off, len);
    let c = a.clone();
    // symbolic drop order of the three handles, with an attempted in-place conversion in between
    let first: u8 = kani::any();
    kani::assume(first < 3);
    let (x, y, z) = match first { 0 => (a, b, c), 1 => (b, c, a), _ => (c, a, b) };
    drop(x);
    assert!(unsafe { DROPS } == 0);
    let y = match y.into_mutable() { Ok(_) => { assert!(false); return; } Err(buf) => buf };
    let i: usize = kani::any();
    kani::assume(i < z.len());
    let _ = z.as_slice()[i]; // still readable
    drop(y);
    assert!(unsafe { DROPS } == 0);
    drop(z);
    assert!(unsafe { DROPS } == 1);
}
