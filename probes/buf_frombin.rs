use super::*;
use crate::bit_util::get_bit;

fn check<const LEN: usize>() {
    let ls: [u64; 3] = kani::any();
    let rs: [u64; 3] = kani::any();
    let l: &[u8] = unsafe { std::slice::from_raw_parts(ls.as_ptr().cast::<u8>(), 24) };
    let r: &[u8] = unsafe { std::slice::from_raw_parts(rs.as_ptr().cast::<u8>(), 24) };
    let lo: usize = kani::any();
    let ro: usize = kani::any();
    kani::assume(lo <= 70 && ro <= 70 && lo + LEN <= 192 && ro + LEN <= 192);
    let out = BooleanBuffer::from_bitwise_binary_op(l, lo, r, ro, LEN, |a, b| a | b);
    assert!(out.len() == LEN);
    let i: usize = kani::any();
    kani::assume(i < LEN);
    assert!(out.value(i) == (get_bit(l, lo + i) || get_bit(r, ro + i)));
    std::mem::forget(out);
}

#[kani::proof]
#[kani::unwind(8)]
fn from_bitwise_binary_or_len65() { check::<65>(); }
