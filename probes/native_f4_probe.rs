use parquet::file::metadata::ParquetMetaDataReader;
fn main() {
    // FileMetaData { 2: schema = list<struct> with announced size i32::MAX } then EOF
    let bytes: Vec<u8> = vec![0x15, 0x02, /* field 1 (version) i32 = 1 */ 0x19, 0xFC, 0xFF, 0xFF, 0xFF, 0xFF, 0x07];
    let t = std::time::Instant::now();
    let r = ParquetMetaDataReader::decode_metadata(&bytes);
    println!("result: {:?} after {:?}", r.map(|_| ()).map_err(|e| e.to_string()), t.elapsed());
}
