use super::*;
use std::cmp::Ordering;

#[kani::proof]
#[kani::unwind(14)]
fn inline_key_fast_is_lexicographic() {
    let a: [u8; 12] = kani::any();
    let b: [u8; 12] = kani::any();
    let la: u32 = kani::any();
    let lb: u32 = kani::any();
    kani::assume(la <= 12 && lb <= 12);
    // valid inline views: bytes beyond the length are zero
    let mut va = [0u8; 16];
    let mut vb = [0u8; 16];
    va[..4].copy_from_slice(&la.to_le_bytes());
    vb[..4].copy_from_slice(&lb.to_le_bytes());
    let mut i = 0;
    while i < 12 {
        if (i as u32) < la { va[4 + i] = a[i]; }
        if (i as u32) < lb { vb[4 + i] = b[i]; }
        i += 1;
    }
    let ka = GenericByteViewArray::<BinaryViewType>::inline_key_fast(u128::from_le_bytes(va));
    let kb = GenericByteViewArray::<BinaryViewType>::inline_key_fast(u128::from_le_bytes(vb));
    // reference: lexicographic on the value bytes
    let mut exp = Ordering::Equal;
    let mut j = 0;
    while j < 12 {
        if exp == Ordering::Equal {
            let ina = (j as u32) < la;
            let inb = (j as u32) < lb;
            if ina && inb { if a[j] != b[j] { exp = a[j].cmp(&b[j]); } }
            else if ina != inb { exp = if ina { Ordering::Greater } else { Ordering::Less }; }
        }
        j += 1;
    }
    assert!(ka.cmp(&kb) == exp);
}
