use super::*;

#[kani::proof]
#[kani::unwind(6)]
fn thrift_skip_bounded() {
    const N: usize = 4;
    let bytes: [u8; N] = kani::any();
    let n: usize = kani::any();
    kani::assume(n <= N);
    let mut p = ThriftSliceInputProtocol::new(&bytes[..n]);
    let _ = p.skip_till_depth(FieldType::List, 2);
    assert!(p.as_slice().len() <= n);
}

#[kani::proof]
#[kani::unwind(12)]
fn thrift_vlq_total() {
    const N: usize = 11;
    let bytes: [u8; N] = kani::any();
    let n: usize = kani::any();
    kani::assume(n <= N);
    let mut p = ThriftSliceInputProtocol::new(&bytes[..n]);
    let r = p.read_vlq();
    if r.is_ok() {
        assert!(p.as_slice().len() < n);
    }
}

// progress lemma: skipping one list/set/map element either fails or consumes >= 1 byte
#[kani::proof]
#[kani::unwind(12)]
fn thrift_skip_element_progress() {
    const N: usize = 9;
    let bytes: [u8; N] = kani::any();
    let n: usize = kani::any();
    kani::assume(n <= N);
    let e: u8 = kani::any();
    if let Ok(et) = ElementType::try_from(e) {
        let mut p = ThriftSliceInputProtocol::new(&bytes[..n]);
        let r = p.skip_till_depth(FieldType::from(et), 1);
        if r.is_ok() {
            assert!(p.as_slice().len() < n);
        }
    }
}
