use super::*;

fn stub_format(_a: std::fmt::Arguments<'_>) -> String { String::new() }

// arbitrary bytes as variant metadata: Err, or a dictionary whose every entry can be read
#[kani::proof]
#[kani::unwind(9)]
#[kani::stub(alloc::fmt::format, stub_format)]
fn metadata_try_new_total() {
    const N: usize = 7;
    let bytes: [u8; N] = kani::any();
    let n: usize = kani::any();
    kani::assume(n <= N);
    let r = VariantMetadata::try_new(&bytes[..n]);
    if let Ok(m) = r {
        let len = m.len();
        assert!(len <= n);
        let i: usize = kani::any();
        kani::assume(i < len);
        let s = m.get(i);
        assert!(s.is_ok());
        std::mem::forget(s);
        std::mem::forget(m);
    } else {
        std::mem::forget(r);
    }
}
