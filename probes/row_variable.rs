use super::*;
use std::cmp::Ordering;

const MAXLEN: usize = 9; // crosses the 8-byte mini-block boundary
const OUT: usize = 19;   // padded_length(9) = 1 + 2*9

fn lex(a: &[u8], na: usize, b: &[u8], nb: usize) -> Ordering {
    let mut i = 0;
    while i < OUT {
        if i >= na || i >= nb { break; }
        if a[i] != b[i] { return a[i].cmp(&b[i]); }
        i += 1;
    }
    na.cmp(&nb)
}

#[kani::proof]
#[kani::unwind(21)]
fn variable_order_preserving() {
    let a: [u8; MAXLEN] = kani::any();
    let b: [u8; MAXLEN] = kani::any();
    let la: usize = kani::any();
    let lb: usize = kani::any();
    kani::assume(la <= MAXLEN && lb <= MAXLEN);
    let an: bool = kani::any();
    let bn: bool = kani::any();
    let opts = SortOptions { descending: kani::any(), nulls_first: kani::any() };
    let av = if an { None } else { Some(&a[..la]) };
    let bv = if bn { None } else { Some(&b[..lb]) };
    let mut oa = [0u8; OUT];
    let mut ob = [0u8; OUT];
    let na = encode_one(&mut oa, av, opts);
    let nb = encode_one(&mut ob, bv, opts);
    assert!(na == padded_length(av.map(|x| x.len())));
    let got = lex(&oa, na, &ob, nb);
    let exp = match (av, bv) {
        (None, None) => Ordering::Equal,
        (None, Some(_)) => if opts.nulls_first { Ordering::Less } else { Ordering::Greater },
        (Some(_), None) => if opts.nulls_first { Ordering::Greater } else { Ordering::Less },
        (Some(x), Some(y)) => {
            let o = lex(x, la, y, lb);
            if opts.descending { o.reverse() } else { o }
        }
    };
    assert!(got == exp);
}
