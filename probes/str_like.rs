use super::*;

fn naive_memchr3(a: u8, b: u8, c: u8, h: &[u8]) -> Option<usize> {
    let mut i = 0;
    while i < h.len() { if h[i] == a || h[i] == b || h[i] == c { return Some(i); } i += 1; }
    None
}

fn stub_regex_like(_p: &str, _ci: bool) -> Result<Regex, ArrowError> {
    Err(ArrowError::NotYetImplemented(String::new()))
}

fn stub_contains<'a>(needle: &'a str) -> Predicate<'a> where 'a: 'a { Predicate::IEqAscii(needle) }

// reference LIKE matcher on ASCII bytes: % any sequence, _ one byte, \ escapes next
fn like_ref(p: &[u8], s: &[u8], fuel: u32) -> bool {
    if fuel == 0 { return false; }
    if p.is_empty() { return s.is_empty(); }
    match p[0] {
        b'%' => {
            let mut k = 0;
            while k <= s.len() {
                if like_ref(&p[1..], &s[k..], fuel - 1) { return true; }
                k += 1;
            }
            false
        }
        b'_' => !s.is_empty() && like_ref(&p[1..], &s[1..], fuel - 1),
        b'\\' if p.len() >= 2 => !s.is_empty() && s[0] == p[1] && like_ref(&p[2..], &s[1..], fuel - 1),
        c => !s.is_empty() && s[0] == c && like_ref(&p[1..], &s[1..], fuel - 1),
    }
}

#[kani::proof]
#[kani::unwind(6)]
#[kani::stub(memchr::memchr3, naive_memchr3)]
#[kani::stub(regex_like, stub_regex_like)]
#[kani::stub(Predicate::contains, stub_contains)]
fn like_fast_paths_match_definition() {
    const ALPHA: [u8; 5] = [b'%', b'_', b'\\', b'a', b'b'];
    let mut pb = [0u8; 3];
    let mut sb = [0u8; 3];
    let mut i = 0;
    while i < 3 {
        let x: usize = kani::any(); kani::assume(x < 5); pb[i] = ALPHA[x];
        let y: usize = kani::any(); kani::assume(y < 5); sb[i] = ALPHA[y];
        i += 1;
    }
    let pl: usize = kani::any(); kani::assume(pl <= 3);
    let sl: usize = kani::any(); kani::assume(sl <= 3);
    let pat = std::str::from_utf8(&pb[..pl]).unwrap();
    let hay = std::str::from_utf8(&sb[..sl]).unwrap();
    let pred = Predicate::like(pat);
    if let Ok(p) = pred {
        match &p {
            Predicate::Eq(_) | Predicate::StartsWith(_) | Predicate::EndsWith(_) => {
                assert!(p.evaluate(hay) == like_ref(pat.as_bytes(), hay.as_bytes(), 8));
            }
            Predicate::IEqAscii(needle) => {
                // stands for Contains(needle): evaluate by naive substring search
                let n = needle.as_bytes(); let h = hay.as_bytes();
                let mut found = n.is_empty();
                let mut k = 0;
                while k + n.len() <= h.len() { if &h[k..k + n.len()] == n { found = true; } k += 1; }
                assert!(found == like_ref(pat.as_bytes(), hay.as_bytes(), 8));
            }
            _ => {}
        }
        std::mem::forget(p);
    }
}
