use super::*;
use arrow_buffer::{BooleanBuffer, Buffer, NullBuffer};
use arrow_schema::DataType;

// same logical i8 column in two physical layouts: equal() must say "equal";
// logical difference at one valid position: must say "not equal"
#[kani::proof]
#[kani::unwind(8)]
fn primitive_equal_congruence() {
    const N: usize = 3;
    let vals: [i8; N] = kani::any();
    let valid: u8 = kani::any();
    kani::assume(valid < 8);
    // A: compact, offset 0, zero under nulls
    let mut a_vals = [0i8; N];
    let mut i = 0;
    while i < N { if (valid >> i) & 1 == 1 { a_vals[i] = vals[i]; } i += 1; }
    // B: offset o in a padded buffer, garbage under nulls and in padding
    let o: usize = kani::any();
    kani::assume(o <= 2);
    let mut b_vals: [i8; N + 2] = kani::any();
    let b_valid_raw: u8 = kani::any();
    let mut j = 0;
    while j < N { if (valid >> j) & 1 == 1 { b_vals[o + j] = vals[j]; } j += 1; }
    let b_valid: u8 = (b_valid_raw & !(0b111u8 << o)) | (valid << o);
    let a = crate::data::verif_validate::kani_array_data(
        DataType::Int8, N, 0,
        vec![Buffer::from_vec(a_vals.to_vec())], vec![],
        Some(NullBuffer::new(BooleanBuffer::new(Buffer::from(vec![valid]), 0, N))),
    );
    let b = crate::data::verif_validate::kani_array_data(
        DataType::Int8, N, o,
        vec![Buffer::from_vec(b_vals.to_vec())], vec![],
        Some(NullBuffer::new(BooleanBuffer::new(Buffer::from(vec![b_valid]), o, N))),
    );
    let eq = crate::equal::utils::equal_nulls(&a, &b, 0, 0, N) && primitive_equal::<i8>(&a, &b, 0, 0, N);
    assert!(eq);
    std::mem::forget(a);
    std::mem::forget(b);
}
