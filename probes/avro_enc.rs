use super::*;
use crate::writer::kani_write_long as write_long;

struct Sink { buf: [u8; 10], n: usize }
impl std::io::Write for Sink {
    fn write(&mut self, b: &[u8]) -> std::io::Result<usize> { self.write_all(b)?; Ok(b.len()) }
    fn write_all(&mut self, b: &[u8]) -> std::io::Result<()> {
        let mut i = 0;
        while i < b.len() { self.buf[self.n + i] = b[i]; i += 1; }
        self.n += b.len();
        Ok(())
    }
    fn flush(&mut self) -> std::io::Result<()> { Ok(()) }
}

fn stub_format(_a: std::fmt::Arguments<'_>) -> String { String::new() }

#[kani::proof]
#[kani::unwind(12)]
#[kani::stub(alloc::fmt::format, stub_format)]
fn write_long_roundtrip() {
    let v: i64 = kani::any();
    let mut sink = Sink { buf: [0; 10], n: 0 };
    let r = write_long(&mut sink, v);
    assert!(r.is_ok());
    std::mem::forget(r);
    let n = sink.n;
    assert!(n >= 1 && n <= 10);
    let mut c = AvroCursor::new(&sink.buf[..n]);
    let got = c.get_long();
    assert!(matches!(got, Ok(x) if x == v));
    std::mem::forget(got);
    assert!(c.position() == n);
}
