use super::*;
use crate::ScalarBuffer;

#[kani::proof]
#[kani::unwind(7)]
fn offset_buffer_new_sound() {
    let raw: [i32; 5] = kani::any();
    let n: usize = kani::any();
    kani::assume(n >= 1 && n <= 5); // n == 0 panics by contract ("offsets cannot be empty")
    let sb = ScalarBuffer::<i32>::from(raw[..n].to_vec());
    // documented precondition of `new` is checked by `new` itself via panics; we model
    // "accepted" as "did not panic" by assuming the spec and asserting acceptance is total,
    // and the converse by a twin harness (offset_buffer_new_rejects)
    let mut ok = raw[0] >= 0;
    let mut i = 0;
    while i + 1 < n { if raw[i] > raw[i + 1] { ok = false; } i += 1; }
    kani::assume(ok);
    let ob = OffsetBuffer::new(sb);
    assert!(ob.len() == n);
    kani::cover!(n == 5);
    std::mem::forget(ob);
}

#[kani::proof]
#[kani::unwind(7)]
#[kani::should_panic]
fn offset_buffer_new_rejects() {
    let raw: [i32; 5] = kani::any();
    let n: usize = kani::any();
    kani::assume(n >= 1 && n <= 5);
    let mut ok = raw[0] >= 0;
    let mut i = 0;
    while i + 1 < n { if raw[i] > raw[i + 1] { ok = false; } i += 1; }
    kani::assume(!ok);
    let sb = ScalarBuffer::<i32>::from(raw[..n].to_vec());
    let ob = OffsetBuffer::new(sb);
    std::mem::forget(ob);
}
