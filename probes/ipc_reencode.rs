use super::*;
use arrow_buffer::Buffer;
use arrow_schema::DataType;

#[kani::proof]
#[kani::unwind(7)]
fn reencode_offsets_i32_rebases() {
    let offs: [i32; 5] = kani::any();
    // valid, monotone, non-negative offsets into an 8-byte values buffer
    kani::assume(offs[0] >= 0 && offs[0] <= offs[1] && offs[1] <= offs[2] && offs[2] <= offs[3] && offs[3] <= offs[4] && offs[4] <= 8);
    let off: usize = kani::any();
    let len: usize = kani::any();
    kani::assume(len >= 1 && off + len <= 4);
    let ob = Buffer::from_vec(offs.to_vec());
    let data = arrow_data::verif_kani_array_data(DataType::Binary, len, off, vec![ob.clone(), Buffer::from_vec(vec![0u8; 8])], vec![], None);
    let (new_offsets, start, total) = reencode_offsets::<i32>(&ob, &data);
    let no: &[i32] = new_offsets.typed_data::<i32>();
    assert!(no.len() == len + 1);
    assert!(no[0] == 0);
    assert!(start == offs[off] as usize);
    assert!(total == (offs[off + len] - offs[off]) as usize);
    let i: usize = kani::any();
    kani::assume(i <= len);
    assert!(no[i] == offs[off + i] - offs[off]);
    std::mem::forget(data);
    std::mem::forget(new_offsets);
    std::mem::forget(ob);
}
