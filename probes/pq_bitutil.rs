use super::*;

// one inductive step of BitWriter::put_value from an arbitrary valid state
#[kani::proof]
#[kani::unwind(10)]
fn bitwriter_put_step() {
    let off: u8 = kani::any();
    kani::assume(off < 64);
    let buffered: u64 = kani::any();
    kani::assume(off == 0 && buffered == 0 || off > 0 && (buffered >> off) == 0);
    let w: usize = kani::any();
    kani::assume(w <= 64);
    let v: u64 = kani::any();
    kani::assume(w == 64 || (v >> w) == 0);
    let mut bw = BitWriter { buffer: Vec::with_capacity(16), buffered_values: buffered, bit_offset: off };
    bw.put_value(v, w);
    // 128-bit model of the accumulator
    let acc: u128 = (buffered as u128) | ((v as u128) << off);
    let total = off as usize + w;
    if total >= 64 {
        assert!(bw.buffer.len() == 8);
        let i: usize = kani::any();
        kani::assume(i < 8);
        assert!(bw.buffer[i] == (acc >> (8 * i)) as u8);
        assert!(bw.bit_offset as usize == total - 64);
        assert!(bw.buffered_values == (acc >> 64) as u64);
    } else {
        assert!(bw.buffer.is_empty());
        assert!(bw.bit_offset as usize == total);
        assert!(bw.buffered_values == acc as u64);
    }
    std::mem::forget(bw);
}
