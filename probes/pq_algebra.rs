use super::*;

const K: usize = 2;
const RC: usize = 3;
const W: usize = 2 * K * RC;

fn any_selectors() -> Vec<RowSelector> {
    let n: usize = kani::any();
    kani::assume(n <= K);
    let mut v = Vec::with_capacity(K);
    let mut i = 0;
    while i < K {
        if i < n {
            let rc: usize = kani::any();
            kani::assume(rc <= RC);
            v.push(RowSelector { row_count: rc, skip: kani::any() });
        }
        i += 1;
    }
    v
}

fn denote<'a>(s: impl Iterator<Item = &'a RowSelector>) -> (u32, usize) {
    let mut mask = 0u32;
    let mut pos = 0usize;
    for sel in s {
        let mut j = 0;
        while j < sel.row_count {
            if !sel.skip { mask |= 1 << pos; }
            pos += 1;
            j += 1;
        }
    }
    (mask, pos)
}

#[kani::proof]
#[kani::unwind(8)]
fn intersect_denotation() {
    let l = any_selectors();
    let r = any_selectors();
    let (ml, nl) = denote(l.iter());
    let (mr, nr) = denote(r.iter());
    let out = intersect_row_selections(&l, &r);
    let (mo, no) = denote(out.iter());
    // common prefix: AND; the longer side's tail passes through
    let common = if nl < nr { nl } else { nr };
    let cm: u32 = (1u32 << common) - 1;
    let exp = (ml & mr & cm) | (ml & !cm) | (mr & !cm);
    assert!(mo == exp);
    assert!(no == if nl > nr { nl } else { nr });
    std::mem::forget(out);
}
