use super::*;
use arrow_array::{BooleanArray, Int8Array, Array};
use arrow_buffer::{BooleanBuffer, Buffer, NullBuffer, ScalarBuffer};

#[kani::proof]
#[kani::unwind(12)]
fn filter_i8_model() {
    const N: usize = 8;
    let vals: [i8; N] = kani::any();
    let mask: u8 = kani::any();
    let valid: u8 = kani::any();
    let values = ScalarBuffer::<i8>::from(vals.to_vec());
    let nulls = NullBuffer::new(BooleanBuffer::new(Buffer::from(vec![valid]), 0, N));
    let arr = Int8Array::new(values, Some(nulls));
    let pred = BooleanArray::new(BooleanBuffer::new(Buffer::from(vec![mask]), 0, N), None);
    let out = filter(&arr, &pred).unwrap();
    let out = out.as_any().downcast_ref::<Int8Array>().unwrap();
    assert!(out.len() == mask.count_ones() as usize);
    // k-th selected row
    let k: usize = kani::any();
    kani::assume(k < out.len());
    let mut seen = 0usize;
    let mut src = 0usize;
    let mut j = 0;
    while j < N {
        if (mask >> j) & 1 == 1 {
            if seen == k { src = j; }
            seen += 1;
        }
        j += 1;
    }
    assert!(out.is_valid(k) == ((valid >> src) & 1 == 1));
    if out.is_valid(k) {
        assert!(out.value(k) == vals[src]);
    }
}

#[kani::proof]
#[kani::unwind(12)]
fn filter_primitive_i8_model() {
    const N: usize = 8;
    let vals: [i8; N] = kani::any();
    let mask: u8 = kani::any();
    let valid: u8 = kani::any();
    let values = ScalarBuffer::<i8>::from(vals.to_vec());
    let nulls = NullBuffer::new(BooleanBuffer::new(Buffer::from(vec![valid]), 0, N));
    let arr = Int8Array::new(values, Some(nulls));
    let pred = BooleanArray::new(BooleanBuffer::new(Buffer::from(vec![mask]), 0, N), None);
    let predicate = FilterBuilder::new(&pred).build();
    kani::assume(!matches!(predicate.strategy, IterationStrategy::All | IterationStrategy::None));
    let out = filter_primitive(&arr, &predicate);
    assert!(out.len() == mask.count_ones() as usize);
    let k: usize = kani::any();
    kani::assume(k < out.len());
    let mut seen = 0usize;
    let mut src = 0usize;
    let mut j = 0;
    while j < N {
        if (mask >> j) & 1 == 1 {
            if seen == k { src = j; }
            seen += 1;
        }
        j += 1;
    }
    assert!(out.is_valid(k) == ((valid >> src) & 1 == 1));
    if out.is_valid(k) {
        assert!(out.value(k) == vals[src]);
    }
    std::mem::forget(out);
    std::mem::forget(arr);
}

#[kani::proof]
#[kani::unwind(12)]
fn filter_native_i8_model() {
    const N: usize = 8;
    let vals: [i8; N] = kani::any();
    let mask: u8 = kani::any();
    let pred = BooleanArray::new(BooleanBuffer::new(Buffer::from(vec![mask]), 0, N), None);
    let predicate = FilterBuilder::new(&pred).build();
    kani::assume(!matches!(predicate.strategy, IterationStrategy::All | IterationStrategy::None));
    let out = filter_native::<i8>(&vals, &predicate);
    assert!(out.len() == mask.count_ones() as usize);
    let k: usize = kani::any();
    kani::assume(k < out.len());
    let mut seen = 0usize;
    let mut src = 0usize;
    let mut j = 0;
    while j < N {
        if (mask >> j) & 1 == 1 {
            if seen == k { src = j; }
            seen += 1;
        }
        j += 1;
    }
    assert!(out.as_slice()[k] as i8 == vals[src]);
    std::mem::forget(out);
    std::mem::forget(predicate);
    std::mem::forget(pred);
}

#[kani::proof]
#[kani::unwind(6)]
fn filter_native_i8_small() {
    const N: usize = 4;
    let vals: [i8; N] = kani::any();
    let mask: u8 = kani::any();
    kani::assume(mask < 16);
    let pred = BooleanArray::new(BooleanBuffer::new(Buffer::from(vec![mask]), 0, N), None);
    let predicate = FilterBuilder::new(&pred).build();
    kani::assume(!matches!(predicate.strategy, IterationStrategy::All | IterationStrategy::None));
    let out = filter_native::<i8>(&vals, &predicate);
    assert!(out.len() == mask.count_ones() as usize);
    let k: usize = kani::any();
    kani::assume(k < out.len());
    let mut seen = 0usize;
    let mut src = 0usize;
    let mut j = 0;
    while j < N {
        if (mask >> j) & 1 == 1 {
            if seen == k { src = j; }
            seen += 1;
        }
        j += 1;
    }
    assert!(out.as_slice()[k] as i8 == vals[src]);
    std::mem::forget(out);
    std::mem::forget(predicate);
    std::mem::forget(pred);
}
