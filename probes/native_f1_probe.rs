use std::sync::Arc;
use bytes::Bytes;
use parquet::data_type::{ByteArray, ByteArrayType};
use parquet::file::properties::WriterProperties;
use parquet::file::reader::{FileReader, SerializedFileReader};
use parquet::file::writer::SerializedFileWriter;
use parquet::schema::parser::parse_message_type;

fn main() {
    let schema = Arc::new(parse_message_type("message m { required binary d (DECIMAL(5,0)); }").unwrap());
    let mut out = Vec::new();
    let mut w = SerializedFileWriter::new(&mut out, schema, Arc::new(WriterProperties::builder().build())).unwrap();
    let mut rg = w.next_row_group().unwrap();
    let mut col = rg.next_column().unwrap().unwrap();
    // two decimals in minimal / non-minimal big-endian two's complement: 1 and 32
    let vals = vec![ByteArray::from(vec![0u8, 0, 1]), ByteArray::from(vec![32u8])];
    col.typed::<ByteArrayType>().write_batch(&vals, None, None).unwrap();
    col.close().unwrap();
    rg.close().unwrap();
    w.close().unwrap();
    let r = SerializedFileReader::new(Bytes::from(out)).unwrap();
    let st = r.metadata().row_group(0).column(0).statistics().unwrap().clone();
    println!("values written: 1 (bytes 00 00 01) and 32 (bytes 20)");
    println!("chunk min bytes = {:?}, max bytes = {:?}", st.min_bytes_opt(), st.max_bytes_opt());
}
