use super::*;

// chunk independence of the resumable VLQ decoder + agreement with the one-shot readers
#[kani::proof]
#[kani::unwind(13)]
fn vlq_chunking() {
    const N: usize = 11;
    let bytes: [u8; N] = kani::any();
    let n: usize = kani::any();
    kani::assume(n <= N);
    let k: usize = kani::any();
    kani::assume(k <= n);
    let input = &bytes[..n];

    // one call
    let mut d1 = VLQDecoder::default();
    let mut b1 = input;
    let r1 = d1.long(&mut b1);
    let used1 = n - b1.len();

    // two calls split at k
    let mut d2 = VLQDecoder::default();
    let mut first = &input[..k];
    let r2a = d2.long(&mut first);
    let (r2, used2) = match r2a {
        Ok(None) => {
            assert!(first.is_empty());
            let mut second = &input[k..];
            let r = d2.long(&mut second);
            (r, n - second.len())
        }
        other => (other, k - first.len()),
    };
    match (&r1, &r2) {
        (Ok(a), Ok(b)) => { assert!(a == b); assert!(used1 == used2); }
        (Err(_), Err(_)) => {}
        _ => assert!(false),
    }
    // agreement with the slice reader on complete values
    if let Ok(Some(v)) = r1 {
        let (u, len) = read_varint(input).unwrap();
        assert!(len == used1);
        assert!(((u >> 1) as i64 ^ -((u & 1) as i64)) == v);
        assert!(skip_varint(input) == Some(len));
    }
}

#[kani::proof]
#[kani::unwind(13)]
fn varint_fast_slow_agree() {
    let bytes: [u8; 12] = kani::any();
    let n: usize = kani::any();
    kani::assume(n <= 12);
    let input = &bytes[..n];
    let a = read_varint(input);
    let b = read_varint_slow(input);
    assert!(a == b);
}

// composition lemma from an arbitrary reachable decoder state:
// decode(a ++ b) == decode(a) ; decode(b)
#[kani::proof]
#[kani::unwind(6)]
fn vlq_composition_lemma() {
    let k: u32 = kani::any();
    kani::assume(k <= 9);
    let shift = 7 * k;
    let in_progress: u64 = kani::any();
    // invariant of reachable states: only the low `shift` bits can be set
    kani::assume(shift == 0 && in_progress == 0 || shift > 0 && shift < 64 && (in_progress >> shift) == 0);
    let bytes: [u8; 3] = kani::any();
    let n: usize = kani::any();
    kani::assume(n <= 3);
    let s: usize = kani::any();
    kani::assume(s <= n);
    let input = &bytes[..n];

    let mut d1 = VLQDecoder { in_progress, shift };
    let mut b1 = input;
    let r1 = d1.long(&mut b1);
    let used1 = n - b1.len();

    let mut d2 = VLQDecoder { in_progress, shift };
    let mut first = &input[..s];
    let r2a = d2.long(&mut first);
    let (r2, used2) = match r2a {
        Ok(None) => {
            let mut second = &input[s..];
            let r = d2.long(&mut second);
            (r, n - second.len())
        }
        other => (other, s - first.len()),
    };
    match (&r1, &r2) {
        (Ok(a), Ok(b)) => {
            assert!(a == b);
            assert!(used1 == used2);
            assert!(d1.in_progress == d2.in_progress && d1.shift == d2.shift);
        }
        (Err(_), Err(_)) => {
            assert!(d1.in_progress == d2.in_progress && d1.shift == d2.shift);
        }
        _ => assert!(false),
    }
    // the invariant is preserved (so it is inductive)
    assert!(d1.shift % 7 == 0 && d1.shift <= 63);
    assert!(d1.shift == 0 && d1.in_progress == 0 || d1.shift > 0 && (d1.in_progress >> d1.shift) == 0);
}
