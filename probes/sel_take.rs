use super::*;
use arrow_array::{Int32Array, Array};
use arrow_buffer::{BooleanBuffer, Buffer, NullBuffer, ScalarBuffer};

#[kani::proof]
#[kani::unwind(6)]
fn take_native_i8_model() {
    const V: usize = 3; // values
    const K: usize = 3; // indices
    let vals: [i8; V] = kani::any();
    let idx: [i32; K] = kani::any();
    let idx_valid: u8 = kani::any();
    kani::assume(idx_valid < 8);
    // valid indices are in range (documented precondition of the unchecked path); null slots arbitrary
    let mut j = 0;
    while j < K {
        if (idx_valid >> j) & 1 == 1 { kani::assume(idx[j] >= 0 && (idx[j] as usize) < V); }
        j += 1;
    }
    let nulls = NullBuffer::new(BooleanBuffer::new(Buffer::from(vec![idx_valid]), 0, K));
    let indices = Int32Array::new(ScalarBuffer::from(idx.to_vec()), Some(nulls));
    let out = take_native::<i8, arrow_array::types::Int32Type>(&vals, &indices);
    assert!(out.len() == K);
    let k: usize = kani::any();
    kani::assume(k < K);
    if (idx_valid >> k) & 1 == 1 {
        assert!(out[k] == vals[idx[k] as usize]);
    }
    std::mem::forget(out);
    std::mem::forget(indices);
}
