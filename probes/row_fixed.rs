use super::*;
use std::cmp::Ordering;

fn lex<const N: usize>(a: [u8; N], b: [u8; N]) -> Ordering {
    let mut i = 0;
    while i < N {
        if a[i] != b[i] { return a[i].cmp(&b[i]); }
        i += 1;
    }
    Ordering::Equal
}

#[kani::proof]
#[kani::unwind(10)]
fn f64_key_is_total_order() {
    let a = f64::from_bits(kani::any());
    let b = f64::from_bits(kani::any());
    assert!(lex(a.encode(), b.encode()) == a.total_cmp(&b));
    assert!(f64::decode(a.encode()).to_bits() == a.to_bits());
}

#[kani::proof]
#[kani::unwind(18)]
fn i128_key_is_order() {
    let a: i128 = kani::any();
    let b: i128 = kani::any();
    assert!(lex(a.encode(), b.encode()) == a.cmp(&b));
    assert!(i128::decode(a.encode()) == a);
}
