use crate::util::bit_mask::set_bits;

#[kani::proof]
#[kani::unwind(20)]
fn set_bits_u128() {
    let src: u128 = kani::any();
    let orig: u128 = kani::any();
    let ow: usize = kani::any();
    let or: usize = kani::any();
    let len: usize = kani::any();
    kani::assume(ow <= 128 && or <= 128 && len <= 128);
    kani::assume(ow + len <= 128 && or + len <= 128);
    let lm: u128 = if len == 128 { u128::MAX } else { (1u128 << len) - 1 };
    let wmask: u128 = if len == 0 { 0 } else { lm << ow };
    let before = orig & !wmask;
    let mut dst = before.to_le_bytes();
    let s = src.to_le_bytes();
    let nulls = set_bits(&mut dst, &s, ow, or, len);
    let field: u128 = if len == 0 { 0 } else { (src >> or) & lm };
    let expected = before | if len == 0 { 0 } else { field << ow };
    assert!(u128::from_le_bytes(dst) == expected);
    assert!(nulls == len - field.count_ones() as usize);
}
