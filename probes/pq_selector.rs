use super::*;

const K: usize = 2;      // selectors per side
const RC: usize = 3;     // max row_count per selector
const W: usize = K * RC; // <= 15 rows, fits a u32 mask

fn any_selectors() -> (Vec<RowSelector>, usize) {
    let n: usize = kani::any();
    kani::assume(n <= K);
    let mut v = Vec::with_capacity(K);
    let mut i = 0;
    while i < K {
        if i < n {
            let rc: usize = kani::any();
            kani::assume(rc <= RC);
            v.push(RowSelector { row_count: rc, skip: kani::any() });
        }
        i += 1;
    }
    (v, n)
}

// positions selected, as a bitmask; returns (mask, total rows)
fn denote(s: &[RowSelector]) -> (u32, usize) {
    let mut mask = 0u32;
    let mut pos = 0usize;
    let mut i = 0;
    while i < s.len() {
        let mut j = 0;
        while j < s[i].row_count {
            if !s[i].skip { mask |= 1 << pos; }
            pos += 1;
            j += 1;
        }
        i += 1;
    }
    (mask, pos)
}

#[kani::proof]
#[kani::unwind(8)]
fn limit_selectors_denotation() {
    let (v, _) = any_selectors();
    let (m, _) = denote(&v);
    let limit: usize = kani::any();
    kani::assume(limit <= W + 1);
    let out = limit_selectors(v, limit);
    let (mo, _) = denote(&out);
    // first `limit` set bits of m
    let mut exp = 0u32;
    let mut cnt = 0usize;
    let mut p = 0;
    while p < W {
        if (m >> p) & 1 == 1 && cnt < limit { exp |= 1 << p; cnt += 1; }
        p += 1;
    }
    assert!(mo == exp);
}

#[kani::proof]
#[kani::unwind(8)]
fn offset_selectors_denotation() {
    let (v, _) = any_selectors();
    let (m, _) = denote(&v);
    let offset: usize = kani::any();
    kani::assume(offset <= W + 1);
    let out = offset_selectors(v, offset);
    let (mo, _) = denote(&out);
    let mut exp = 0u32;
    let mut cnt = 0usize;
    let mut p = 0;
    while p < W {
        if (m >> p) & 1 == 1 { if cnt >= offset { exp |= 1 << p; } cnt += 1; }
        p += 1;
    }
    assert!(mo == exp);
}
