use arrow_array::cast::AsArray;
use arrow_json::ReaderBuilder;
use arrow_schema::{DataType, Field, Schema};
use std::sync::Arc;

// RFC 8259: the escape BSud840 BSudc00 (a UTF-16 surrogate pair) denotes U+20000 (CJK Extension B)
#[test]
fn escaped_surrogate_pair_decodes_to_the_right_scalar() {
    let schema = Arc::new(Schema::new(vec![Field::new("a", DataType::Utf8, true)]));
    let bs = char::from(0x5Cu8); // backslash
    let json = format!("{{{q}a{q}:{q}{bs}ud840{bs}udc00{q}}}", q = '"', bs = bs);
    assert_eq!(json.len(), 20);
    let mut reader = ReaderBuilder::new(schema).build(std::io::Cursor::new(json.into_bytes())).unwrap();
    let batch = reader.next().unwrap().unwrap();
    let got = batch.column(0).as_string::<i32>().value(0).to_string();
    let cp = got.chars().next().unwrap() as u32;
    assert_eq!(cp, 0x20000, "decoded U+{:X} instead of U+20000", cp);
}
