use parquet_variant::{Variant, VariantMetadata};

#[test]
fn short_uuid_is_an_error_not_a_panic() {
    let r = std::panic::catch_unwind(|| Variant::try_new(&[1, 0, 0], &[0x50, 1, 2, 3]).is_ok());
    println!("uuid: {:?}", r);
    assert!(matches!(r, Ok(false)), "Variant::try_new on a 3-byte UUID payload must return Err");
}

#[test]
fn unsorted_dictionary_split_char() {
    let r = std::panic::catch_unwind(|| {
        let m = VariantMetadata::try_new(&[0x01, 2, 0, 1, 2, 0xC3, 0xA9]);
        match m {
            Ok(m) => {
                let names: Vec<String> = m.iter().map(|s| s.to_string()).collect();
                println!("names {:?}", names);
                true
            }
            Err(e) => {
                println!("rejected: {e}");
                false
            }
        }
    });
    println!("metadata: {:?}", r.as_ref().map(|_| ()));
    assert!(r.is_ok(), "try_new succeeded but iter() panicked");
}
