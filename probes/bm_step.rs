use super::*;
use crate::bit_util::get_bit;

#[kani::proof]
#[kani::unwind(10)]
fn set_upto_64_step() {
    let s: [u8; 16] = kani::any();
    let orig: [u8; 16] = kani::any();
    let ws: usize = kani::any();
    let rs: usize = kani::any();
    let len: usize = kani::any();
    kani::assume(ws < 8 && rs < 8 && len >= 1 && len <= 100);
    let ow = ws;
    let or = rs;
    let i: usize = kani::any();
    kani::assume(i < 128);
    // loop invariant of set_bits: not-yet-written destination bits are zero
    kani::assume(!(i >= ow && i < ow + len) || !get_bit(&orig, i));
    let mut dst = orig;
    let (_nulls, n) = unsafe { set_upto_64bits(&mut dst, &s, ow, or, len) };
    assert!(n >= 1 && n <= len && n <= 64);
    if i >= ow && i < ow + n {
        assert!(get_bit(&dst, i) == get_bit(&s, i - ow + or));
    } else if i >= ow + n && i < ow + len {
        assert!(!get_bit(&dst, i));
    } else {
        assert!(get_bit(&dst, i) == get_bit(&orig, i));
    }
}
