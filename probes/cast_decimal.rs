use super::*;
use arrow_array::types::Decimal32Type;

fn pow10(k: u32) -> i64 { let mut r = 1i64; let mut i = 0; while i < k { r *= 10; i += 1; } r }

fn stub_format(_a: std::fmt::Arguments<'_>) -> String { String::new() }

#[kani::proof]
#[kani::unwind(12)]
#[kani::stub(alloc::fmt::format, stub_format)]
fn rescale_decimal32_exact() {
    let v: i32 = kani::any();
    let ip: u8 = kani::any();
    let is: i8 = kani::any();
    let op: u8 = kani::any();
    let os: i8 = kani::any();
    kani::assume(ip >= 1 && ip <= 9 && op >= 1 && op <= 9);
    kani::assume(is >= 0 && is <= ip as i8 && os >= 0 && os <= op as i8);
    // input is a valid decimal of its declared precision
    kani::assume((v as i64).abs() < pow10(ip as u32));
    let got = rescale_decimal::<Decimal32Type, Decimal32Type>(v, ip, is, op, os);
    // exact reference in i64
    let exact: i64 = if os >= is {
        (v as i64) * pow10((os - is) as u32)
    } else {
        let d = pow10((is - os) as u32);
        let q = (v as i64) / d;
        let r = (v as i64) % d;
        if r.abs() * 2 >= d { if v >= 0 { q + 1 } else { q - 1 } } else { q }
    };
    let fits = exact.abs() < pow10(op as u32);
    match got {
        Some(r) => { assert!(fits); assert!(r as i64 == exact); }
        None => assert!(!fits),
    }
}
