use super::*;

// bounded history of 3 symbolic operations, then finish: validity sequence = model
#[kani::proof]
#[kani::unwind(8)]
fn null_buffer_builder_history() {
    let mut b = NullBufferBuilder::new(0);
    let mut model: u16 = 0; // bit i = valid
    let mut n: usize = 0;
    let mut step = 0;
    while step < 3 {
        let op: u8 = kani::any();
        kani::assume(op < 4);
        match op {
            0 => { b.append_non_null(); model |= 1 << n; n += 1; }
            1 => { b.append_null(); n += 1; }
            2 => { let k: usize = kani::any(); kani::assume(k <= 3); b.append_n_non_nulls(k); let mut j = 0; while j < 3 { if j < k { model |= 1 << (n + j); } j += 1; } n += k; }
            _ => { let k: usize = kani::any(); kani::assume(k <= 3); b.append_n_nulls(k); n += k; }
        }
        step += 1;
    }
    assert!(b.len() == n);
    let out = b.finish();
    let full: u16 = if n == 0 { 0 } else { (1u16 << n) - 1 };
    match out {
        None => assert!(model == full), // no buffer <=> no nulls
        Some(nb) => {
            assert!(nb.len() == n);
            assert!(nb.null_count() == (full & !model).count_ones() as usize);
            let i: usize = kani::any();
            kani::assume(i < n);
            assert!(nb.is_valid(i) == ((model >> i) & 1 == 1));
            std::mem::forget(nb);
        }
    }
}
