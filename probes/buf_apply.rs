use super::*;

// in-place binary op: bit i in range = left_i & right_(i-lo+ro); outside: unchanged
#[kani::proof]
#[kani::unwind(12)]
fn apply_binary_and_model() {
    const N: usize = 17;
    let orig: [u8; N] = kani::any();
    let right: [u8; N] = kani::any();
    let lo: usize = kani::any();
    let ro: usize = kani::any();
    let len: usize = kani::any();
    kani::assume(lo <= 20 && ro <= 20 && len <= 110);
    kani::assume(lo + len <= N * 8 && ro + len <= N * 8);
    let mut left = orig;
    apply_bitwise_binary_op(&mut left, lo, &right, ro, len, |a, b| a & b);
    let i: usize = kani::any();
    kani::assume(i < N * 8);
    if i >= lo && i < lo + len {
        assert!(get_bit(&left, i) == (get_bit(&orig, i) && get_bit(&right, i - lo + ro)));
    } else {
        assert!(get_bit(&left, i) == get_bit(&orig, i));
    }
    kani::cover!(len >= 64 && lo % 8 != 0 && ro % 8 != 0);
}

#[kani::proof]
#[kani::unwind(12)]
fn apply_unary_not_model() {
    const N: usize = 17;
    let orig: [u8; N] = kani::any();
    let lo: usize = kani::any();
    let len: usize = kani::any();
    kani::assume(lo <= 20 && len <= 110 && lo + len <= N * 8);
    let mut left = orig;
    apply_bitwise_unary_op(&mut left, lo, len, |a| !a);
    let i: usize = kani::any();
    kani::assume(i < N * 8);
    if i >= lo && i < lo + len {
        assert!(get_bit(&left, i) != get_bit(&orig, i));
    } else {
        assert!(get_bit(&left, i) == get_bit(&orig, i));
    }
}
