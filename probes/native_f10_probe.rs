use arrow_buffer::buffer::buffer_unary_not;
use arrow_buffer::Buffer;

#[test]
fn unary_not_at_a_bit_offset() {
    // 16 bytes: bits 5..=12 are 1, everything else 0
    let mut bytes = vec![0u8; 16];
    bytes[0] = 0b1110_0000;
    bytes[1] = 0b0001_1111;
    let src = Buffer::from(bytes);
    // NOT of the 8 bits starting at bit 5 must be eight zero bits
    let out = buffer_unary_not(&src, 5, 8);
    println!("out[0] = {:#010b}", out.as_slice()[0]);
    assert_eq!(out.as_slice()[0], 0, "bit i of the result must be !input[5 + i]");
}
