use super::*;

#[kani::proof]
#[kani::unwind(10)]
fn sbbf_insert_then_check_and_fold() {
    // arbitrary pre-state of 4 blocks
    let mut blocks = Vec::with_capacity(4);
    let mut i = 0;
    while i < 4 {
        blocks.push(Block(kani::any()));
        i += 1;
    }
    let mut f = Sbbf(blocks);
    let h: u64 = kani::any();
    let g: u64 = kani::any();
    f.insert_hash(h);
    assert!(f.check_hash(h));
    f.insert_hash(g);
    assert!(f.check_hash(h));
    let folds: u32 = kani::any();
    kani::assume(folds >= 1 && folds <= 2);
    f.fold_n(folds);
    assert!(f.check_hash(h));
    assert!(f.check_hash(g));
}
