use super::*;
use arrow_buffer::Buffer;
use arrow_schema::DataType;

// checked construction of a Binary array from arbitrary buffers: Ok => layout invariants hold
#[kani::proof]
#[kani::unwind(8)]
fn binary_try_new_sound() {
    const MAXN: usize = 4; // offsets entries available
    let offs: [i32; MAXN] = kani::any();
    let vals: [u8; 4] = kani::any();
    let vlen: usize = kani::any();
    kani::assume(vlen <= 4);
    let len: usize = kani::any();
    let offset: usize = kani::any();
    kani::assume(len <= 4 && offset <= 4);
    let offsets = Buffer::from_vec(offs.to_vec());
    let values = Buffer::from_vec(vals[..vlen].to_vec());
    let r = ArrayData::try_new(DataType::Binary, len, None, offset, vec![offsets, values], vec![]);
    if let Ok(d) = r {
        // independent spec check
        assert!(offset + len + 1 <= MAXN || (len == 0));
        if len > 0 {
            let mut i = 0;
            while i < len {
                let a = offs[offset + i];
                let b = offs[offset + i + 1];
                assert!(a >= 0 && a <= b && (b as usize) <= vlen);
                i += 1;
            }
        }
        std::mem::forget(d);
    }
}

fn stub_format(_a: std::fmt::Arguments<'_>) -> String {
    String::new()
}

#[kani::proof]
#[kani::unwind(8)]
#[kani::stub(alloc::fmt::format, stub_format)]
fn binary_try_new_sound_stubbed() {
    const MAXN: usize = 4;
    let offs: [i32; MAXN] = kani::any();
    let vals: [u8; 4] = kani::any();
    let vlen: usize = kani::any();
    kani::assume(vlen <= 4);
    let len: usize = kani::any();
    let offset: usize = kani::any();
    kani::assume(len <= 4 && offset <= 4);
    let offsets = Buffer::from_vec(offs.to_vec());
    let values = Buffer::from_vec(vals[..vlen].to_vec());
    let r = ArrayData::try_new(DataType::Binary, len, None, offset, vec![offsets, values], vec![]);
    if let Ok(d) = r {
        assert!(offset + len + 1 <= MAXN || (len == 0));
        if len > 0 {
            let mut i = 0;
            while i < len {
                let a = offs[offset + i];
                let b = offs[offset + i + 1];
                assert!(a >= 0 && a <= b && (b as usize) <= vlen);
                i += 1;
            }
        }
        std::mem::forget(d);
    }
}

#[kani::proof]
#[kani::unwind(8)]
#[kani::stub(alloc::fmt::format, stub_format)]
fn binary_validate_by_ref() {
    const MAXN: usize = 4;
    let offs: [i32; MAXN] = kani::any();
    let vals: [u8; 4] = kani::any();
    let vlen: usize = kani::any();
    kani::assume(vlen <= 4);
    let len: usize = kani::any();
    let offset: usize = kani::any();
    kani::assume(len <= 4 && offset <= 4);
    let offsets = Buffer::from_vec(offs.to_vec());
    let values = Buffer::from_vec(vals[..vlen].to_vec());
    let d = unsafe {
        ArrayDataBuilder::new(DataType::Binary)
            .len(len)
            .offset(offset)
            .buffers(vec![offsets, values])
            .build_unchecked()
    };
    let ok = d.validate_full().is_ok();
    if ok {
        assert!(offset + len + 1 <= MAXN || (len == 0));
        if len > 0 {
            let mut i = 0;
            while i < len {
                let a = offs[offset + i];
                let b = offs[offset + i + 1];
                assert!(a >= 0 && a <= b && (b as usize) <= vlen);
                i += 1;
            }
        }
    }
    kani::cover!(ok && len == 3);
    std::mem::forget(d);
}

#[kani::proof]
#[kani::unwind(8)]
#[kani::stub(alloc::fmt::format, stub_format)]
fn binary_validate_direct() {
    const MAXN: usize = 4;
    let offs: [i32; MAXN] = kani::any();
    let vals: [u8; 4] = kani::any();
    let vlen: usize = kani::any();
    kani::assume(vlen <= 4);
    let len: usize = kani::any();
    let offset: usize = kani::any();
    kani::assume(len <= 4 && offset <= 4);
    let offsets = Buffer::from_vec(offs.to_vec());
    let values = Buffer::from_vec(vals[..vlen].to_vec());
    let d = ArrayData {
        data_type: DataType::Binary,
        len,
        offset,
        buffers: vec![offsets, values],
        child_data: vec![],
        nulls: None,
    };
    let r = d.validate_full();
    let ok = r.is_ok();
    std::mem::forget(r);
    if ok {
        assert!(offset + len + 1 <= MAXN || (len == 0));
        if len > 0 {
            let mut i = 0;
            while i < len {
                let a = offs[offset + i];
                let b = offs[offset + i + 1];
                assert!(a >= 0 && a <= b && (b as usize) <= vlen);
                i += 1;
            }
        }
    }
    kani::cover!(ok && len == 3);
    std::mem::forget(d);
}

#[kani::proof]
#[kani::unwind(7)]
#[kani::stub(alloc::fmt::format, stub_format)]
fn binary_offsets_full_inner() {
    const MAXN: usize = 4;
    let offs: [i32; MAXN] = kani::any();
    let vlen: usize = kani::any();
    kani::assume(vlen <= 4);
    let len: usize = kani::any();
    let offset: usize = kani::any();
    kani::assume(len <= 4 && offset <= 4);
    let offsets = Buffer::from_vec(offs.to_vec());
    let values = Buffer::from_vec(vec![0u8; 4]);
    let d = ArrayData {
        data_type: DataType::Binary,
        len,
        offset,
        buffers: vec![offsets, values],
        child_data: vec![],
        nulls: None,
    };
    let r = d.validate_offsets_full::<i32>(vlen);
    let ok = r.is_ok();
    std::mem::forget(r);
    if ok {
        assert!(offset + len + 1 <= MAXN || (len == 0));
        if len > 0 {
            let i: usize = kani::any();
            kani::assume(i < len);
            let a = offs[offset + i];
            let b = offs[offset + i + 1];
            assert!(a >= 0 && a <= b && (b as usize) <= vlen);
        }
    }
    kani::cover!(ok && len == 3);
    std::mem::forget(d);
}

/// constructor for harnesses living in other modules of this crate (fields are private to `data`)
pub fn kani_array_data(
    data_type: DataType,
    len: usize,
    offset: usize,
    buffers: Vec<Buffer>,
    child_data: Vec<ArrayData>,
    nulls: Option<NullBuffer>,
) -> ArrayData {
    ArrayData { data_type, len, offset, buffers, child_data, nulls }
}
