use parquet_variant::Variant;

#[test]
fn far_future_date_is_an_error_not_a_panic() {
    // primitive header: type id 11 (Date) << 2; value = i32::MAX days since the epoch
    let r = std::panic::catch_unwind(|| Variant::try_new(&[1, 0, 0], &[11 << 2, 0xFF, 0xFF, 0xFF, 0x7F]).map(|v| format!("{v:?}")));
    println!("date: {:?}", r);
    assert!(r.is_ok(), "Variant::try_new panicked on an out-of-range date");
}
