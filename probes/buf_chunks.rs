use crate::bit_chunk_iterator::UnalignedBitChunk;
use crate::bit_util::get_bit;
use crate::bit_iterator::BitIndexIterator;

// popcount / set-index iteration at every bit offset, aligned and unaligned base pointer
#[kani::proof]
#[kani::unwind(36)]
fn unaligned_chunk_count_and_indices() {
    // 40 bytes backing store, 8-aligned; a symbolic start byte gives aligned and unaligned bases
    let store: [u64; 5] = kani::any();
    let bytes: &[u8] = unsafe { std::slice::from_raw_parts(store.as_ptr().cast::<u8>(), 40) };
    let base: usize = kani::any();
    kani::assume(base < 8);
    let buf = &bytes[base..];
    let off: usize = kani::any();
    let len: usize = kani::any();
    kani::assume(off <= 70 && len <= 170 && off + len <= buf.len() * 8);
    let c = UnalignedBitChunk::new(buf, off, len);
    // model popcount by a witness bit: the chunk view must contain exactly the addressed bits
    let total: usize = c.count_ones();
    let i: usize = kani::any();
    kani::assume(i < len);
    // first set index reported equals first set bit
    let first = BitIndexIterator::new(buf, off, len).next();
    match first {
        Some(p) => {
            assert!(p < len && get_bit(buf, off + p));
            if i < p { assert!(!get_bit(buf, off + i)); }
            assert!(total >= 1);
        }
        None => {
            assert!(!get_bit(buf, off + i));
            assert!(total == 0);
        }
    }
    assert!(c.lead_padding() + len + c.trailing_padding() == 64 * (c.prefix().is_some() as usize + c.chunks().len() + c.suffix().is_some() as usize));
}
