use super::*;

// value denoted by a big-endian two's complement byte string (<= 4 bytes): as i64
fn be_value(b: &[u8]) -> i64 {
    let mut v: i64 = if b[0] & 0x80 != 0 { -1 } else { 0 };
    let mut i = 0;
    while i < b.len() {
        v = (v << 8) | (b[i] as i64);
        i += 1;
    }
    v
}

#[kani::proof]
#[kani::unwind(6)]
fn decimal_bytes_compare() {
    let a: [u8; 3] = kani::any();
    let b: [u8; 3] = kani::any();
    let la: usize = kani::any();
    let lb: usize = kani::any();
    kani::assume(la >= 1 && la <= 3 && lb >= 1 && lb <= 3);
    let a = &a[..la];
    let b = &b[..lb];
    let got = compare_greater_byte_array_decimals(a, b);
    assert!(got == (be_value(a) > be_value(b)));
}

#[kani::proof]
#[kani::unwind(8)]
fn increment_is_upper_bound() {
    let d: [u8; 4] = kani::any();
    let l: usize = kani::any();
    kani::assume(l >= 1 && l <= 4);
    let v = d[..l].to_vec();
    match increment(v) {
        Some(r) => {
            assert!(r.len() == l);
            assert!(&r[..] > &d[..l]);
        }
        None => {
            let mut i = 0;
            while i < l { assert!(d[i] == 0xFF); i += 1; }
        }
    }
}

#[kani::proof]
#[kani::unwind(8)]
fn truncate_and_increment_utf8_sound() {
    let d: [u8; 5] = kani::any();
    let n: usize = kani::any();
    kani::assume(n >= 2 && n <= 5);
    let s = match std::str::from_utf8(&d[..n]) { Ok(s) => s, Err(_) => return };
    let length: usize = kani::any();
    kani::assume(length >= 1 && length < n);
    match truncate_and_increment_utf8(s, length) {
        Some(r) => {
            assert!(r.len() <= length);
            assert!(std::str::from_utf8(&r).is_ok());
            // strict upper bound on the original, bytewise
            let mut k = 0;
            let mut ord = std::cmp::Ordering::Equal;
            while k < 5 {
                if ord == std::cmp::Ordering::Equal && k < r.len() && k < n { ord = r[k].cmp(&d[k]); }
                k += 1;
            }
            assert!(ord == std::cmp::Ordering::Greater);
            std::mem::forget(r);
        }
        None => {}
    }
    // truncate_utf8: valid prefix
    if let Some(t) = truncate_utf8(s, length) {
        assert!(t.len() <= length && t.len() >= 1);
        assert!(std::str::from_utf8(&t).is_ok());
        let j: usize = kani::any();
        kani::assume(j < t.len());
        assert!(t[j] == d[j]);
        std::mem::forget(t);
    }
}

fn stub_format(_a: std::fmt::Arguments<'_>) -> String { String::new() }

// running min/max under the column's sort order, one inductive step, INT32 with unsigned logical type
#[kani::proof]
#[kani::unwind(6)]
#[kani::stub(alloc::fmt::format, stub_format)]
fn minmax_step_u32() {
    use crate::basic::{ConvertedType, Type as PhysicalType};
    use crate::schema::types::{ColumnDescriptor, ColumnPath, Type};
    use std::sync::Arc;
    let tpe = Type::primitive_type_builder("c", PhysicalType::INT32)
        .with_converted_type(ConvertedType::UINT_32)
        .build()
        .unwrap();
    let descr = ColumnDescriptor::new(Arc::new(tpe), 0, 0, ColumnPath::from("c"));
    let w: i32 = kani::any(); // a value seen earlier
    let lo: i32 = kani::any();
    let hi: i32 = kani::any();
    // invariant: lo <= w <= hi as unsigned
    kani::assume((lo as u32) <= (w as u32) && (w as u32) <= (hi as u32));
    let v: i32 = kani::any();
    let mut min = Some(lo);
    let mut max = Some(hi);
    update_min(&descr, &v, &mut min);
    update_max(&descr, &v, &mut max);
    let (mn, mx) = (min.unwrap() as u32, max.unwrap() as u32);
    assert!(mn <= (w as u32) && (w as u32) <= mx);
    assert!(mn <= (v as u32) && (v as u32) <= mx);
    assert!(mn == (lo as u32) || mn == (v as u32));
    assert!(mx == (hi as u32) || mx == (v as u32));
    std::mem::forget(descr);
}
