#!/usr/bin/env python3
"""Spike: translate loop-free integer MIR functions to SMT-LIB2 (bit-vectors)."""
import re, sys, subprocess

def parse_functions(text):
    fns = {}
    # split on top-level "fn name(args) -> ret {" ; skip "MIR FOR CTFE" duplicates (keep first)
    for m in re.finditer(r'^fn ([^\(]+)\((.*?)\) -> (.+?) \{\n(.*?)^\}', text, re.S | re.M):
        name, args, ret, body = m.group(1).strip(), m.group(2), m.group(3), m.group(4)
        if name in fns:
            continue
        fns[name] = (args, ret, body)
    return fns

WIDTH = {'u8':8,'u16':16,'u32':32,'u64':64,'u128':128,'usize':64,'i8':8,'i16':16,'i32':32,'i64':64,'i128':128,'isize':64,'bool':1}
CONSTS = {'core::num::<impl u64>::MAX': (2**64-1), 'bigint::mulx::MASK': (2**64-1)}

class Tr:
    def __init__(self, fns):
        self.fns = fns; self.defs = []; self.obl = []; self.n = 0
    def fresh(self, p='t'):
        self.n += 1; return f'{p}{self.n}'
    def bv(self, v, w): return f'(_ bv{v % (1<<w)} {w})'
    def operand(self, s, env, types):
        s = s.strip()
        s = re.sub(r'^(copy|move) ', '', s)
        m = re.match(r'^const (.+)$', s)
        if m:
            c = m.group(1)
            mm = re.match(r'^(-?\d+)_([iu]\d+|usize|isize)$', c)
            if mm: return self.bv(int(mm.group(1)), WIDTH[mm.group(2)]), WIDTH[mm.group(2)]
            if c in CONSTS: return self.bv(CONSTS[c], 128 if 'MASK' in c else 64), (128 if 'MASK' in c else 64)
            if c in ('true','false'): return c, 1
            raise NotImplementedError('const ' + c)
        m = re.match(r'^\((_\d+)\.(\d+): ([a-z0-9]+)\)$', s)
        if m:
            return env[(m.group(1), int(m.group(2)))], WIDTH[m.group(3)]
        if re.match(r'^_\d+$', s):
            return env[s], types[s]
        raise NotImplementedError('operand ' + s)
    def call(self, fname, argvals, path):
        args, ret, body = self.fns[fname]
        types = {}
        params = [a.strip() for a in args.split(',') if a.strip()]
        env = {}
        for p, (val, w) in zip(params, argvals):
            loc, ty = p.split(': ')
            env[loc] = val; types[loc] = w
        for m in re.finditer(r'let (?:mut )?(_\d+): ([a-z0-9]+);', body):
            types[m.group(1)] = WIDTH.get(m.group(2))
        blocks = dict((m.group(1), m.group(2)) for m in re.finditer(r'^    (bb\d+): \{\n(.*?)^    \}', body, re.S | re.M))
        cur = 'bb0'
        while True:
            for line in blocks[cur].strip().split('\n'):
                line = line.strip()
                if line == 'return;':
                    return env, types
                m = re.match(r'^(_\d+) = (.+?)\((.*)\) -> \[return: (bb\d+), unwind continue\];$', line)
                if m and m.group(2) in self.fns:
                    av = [self.operand(a, env, types) for a in m.group(3).split(', ')]
                    cenv, ctypes = self.call(m.group(2), av, path)
                    # tuple return
                    for k, v in cenv.items():
                        if isinstance(k, tuple) and k[0] == '_0': env[(m.group(1), k[1])] = v
                    if '_0' in cenv: env[m.group(1)] = cenv['_0']; types[m.group(1)] = ctypes['_0']
                    cur = m.group(4); break
                m = re.match(r'^assert\((!?)(.+?), ".*?".*\) -> \[success: (bb\d+), unwind continue\];$', line)
                if m:
                    v, _ = self.operand(m.group(2), env, types)
                    cond = f'(not {v})' if m.group(1) else v
                    self.obl.append((path + [cur], cond, line[:60]))
                    cur = m.group(3); break
                m = re.match(r'^(_\d+) = \((.+), (.+)\);$', line)
                if m:
                    a, _ = self.operand(m.group(2), env, types); b, _ = self.operand(m.group(3), env, types)
                    env[(m.group(1), 0)] = a; env[(m.group(1), 1)] = b; continue
                m = re.match(r'^(_\d+) = (\w+)\((.+), (.+)\);$', line)
                if m:
                    dst, op = m.group(1), m.group(2)
                    a, wa = self.operand(m.group(3), env, types); b, wb = self.operand(m.group(4), env, types)
                    self.binop(dst, op, a, wa, b, wb, env, types); continue
                m = re.match(r'^(_\d+) = (.+) as ([a-z0-9]+) \(IntToInt\);$', line)
                if m:
                    a, wa = self.operand(m.group(2), env, types); w = WIDTH[m.group(3)]
                    if w > wa: val = f'((_ zero_extend {w-wa}) {a})'
                    elif w < wa: val = f'((_ extract {w-1} 0) {a})'
                    else: val = a
                    env[m.group(1)] = self.define(val, w); types[m.group(1)] = w; continue
                m = re.match(r'^(_\d+) = (.+);$', line)
                if m:
                    v, w = self.operand(m.group(2), env, types)
                    env[m.group(1)] = v; types[m.group(1)] = w; continue
                raise NotImplementedError(line)
            else:
                raise RuntimeError('fell through ' + cur)
    def define(self, expr, w):
        n = self.fresh()
        sort = 'Bool' if w == 1 else f'(_ BitVec {w})'
        self.defs.append(f'(define-fun {n} () {sort} {expr})')
        return n
    def binop(self, dst, op, a, wa, b, wb, env, types):
        if op in ('BitAnd','BitOr','BitXor','Add','Sub'):
            f = {'BitAnd':'bvand','BitOr':'bvor','BitXor':'bvxor','Add':'bvadd','Sub':'bvsub'}[op]
            env[dst] = self.define(f'({f} {a} {b})', wa); types[dst] = wa
        elif op in ('Shl','Shr'):
            if wb != wa:
                b = f'((_ zero_extend {wa-wb}) {b})' if wb < wa else f'((_ extract {wa-1} 0) {b})'
            f = 'bvshl' if op == 'Shl' else 'bvlshr'
            env[dst] = self.define(f'({f} {a} {b})', wa); types[dst] = wa
        elif op == 'Lt':
            env[dst] = self.define(f'(bvult {a} {b})', 1); types[dst] = 1
        elif op == 'AddWithOverflow':
            r = self.define(f'(bvadd {a} {b})', wa)
            o = self.define(f'(bvult {r} {a})', 1)
            env[(dst,0)] = r; env[(dst,1)] = o
        elif op == 'MulWithOverflow' and wa == 128:
            # 128-bit multiply: if both operands < 2^64 use the uninterpreted 64x64 product
            small = f'(and (= ((_ extract 127 64) {a}) (_ bv0 64)) (= ((_ extract 127 64) {b}) (_ bv0 64)))'
            p = self.define(f'(ite {small} (mul64 ((_ extract 63 0) {a}) ((_ extract 63 0) {b})) (bvmul {a} {b}))', 128)
            self.mulsites.append((a, b))
            o = self.define(f'(not {small})', 1)  # conservatively: overflow unless both small
            env[(dst,0)] = p; env[(dst,1)] = o
        else:
            raise NotImplementedError(op)

def main():
    text = open(sys.argv[1]).read()
    fns = parse_functions(text)
    t = Tr(fns); t.mulsites = []
    t.defs += ['(set-logic ALL)', '(declare-fun mul64 ((_ BitVec 64) (_ BitVec 64)) (_ BitVec 128))',
               '(declare-const a (_ BitVec 128))', '(declare-const b (_ BitVec 128))']
    env, types = t.call('mulx', [('a',128),('b',128)], [])
    lo, hi = env[('_0',0)], env[('_0',1)]
    out = list(t.defs)
    # axioms for every mul64 application site
    for (x, y) in t.mulsites:
        out.append(f'(assert (bvule (mul64 ((_ extract 63 0) {x}) ((_ extract 63 0) {y})) #xfffffffffffffffe0000000000000001))')
    obls = ' '.join(c for _, c, _ in t.obl)
    spec = ('(= (concat %s %s) (bvadd ((_ zero_extend 128) (mul64 ((_ extract 63 0) a) ((_ extract 63 0) b))) '
            '(bvshl (bvadd ((_ zero_extend 128) (mul64 ((_ extract 127 64) a) ((_ extract 63 0) b))) ((_ zero_extend 128) (mul64 ((_ extract 127 64) b) ((_ extract 63 0) a)))) (_ bv64 256)) '
            '(bvshl ((_ zero_extend 128) (mul64 ((_ extract 127 64) a) ((_ extract 127 64) b))) (_ bv128 256))))') % (hi, lo)
    out.append(f'(assert (not (and {obls} {spec})))')
    out.append('(check-sat)')
    open(sys.argv[2], 'w').write('\n'.join(out) + '\n')
    print(len(t.obl), 'assert-obligations,', len(t.mulsites), 'mul sites')
main()
