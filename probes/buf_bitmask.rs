use crate::util::bit_mask::set_bits;
use crate::bit_util::get_bit;

const N: usize = 24;

#[kani::proof]
#[kani::unwind(10)]
fn set_bits_model() {
    let src: [u8; N] = kani::any();
    let orig: [u8; N] = kani::any();
    let mut dst = orig;
    let ow: usize = kani::any();
    let or: usize = kani::any();
    let len: usize = kani::any();
    kani::assume(ow <= N * 8 && or <= N * 8 && len <= N * 8);
    kani::assume(ow + len <= N * 8 && or + len <= N * 8);
    let i: usize = kani::any();
    kani::assume(i < N * 8);
    kani::assume(!(i >= ow && i < ow + len) || !get_bit(&orig, i));
    let _nulls = set_bits(&mut dst, &src, ow, or, len);
    if i >= ow && i < ow + len {
        assert!(get_bit(&dst, i) == get_bit(&src, i - ow + or));
    } else {
        assert!(get_bit(&dst, i) == get_bit(&orig, i));
    }
}
