use arrow_array::cast::AsArray;
use arrow_array::types::Int32Type;
use arrow_array::{make_array, Array, Int32Array};
use arrow_data::ArrayData;
use arrow_schema::{DataType, Field};
use std::sync::Arc;

// A run-end-encoded ArrayData whose logical length (100) is NOT covered by its last run end (3).
#[test]
fn checked_constructor_rejects_run_ends_that_do_not_cover_the_length() {
    let run_ends = Int32Array::from(vec![1, 2, 3]).into_data();
    let values = Int32Array::from(vec![7, 8, 9]).into_data();
    let dt = DataType::RunEndEncoded(
        Arc::new(Field::new("run_ends", DataType::Int32, false)),
        Arc::new(Field::new("values", DataType::Int32, true)),
    );
    let d = ArrayData::try_new(dt, 100, None, 0, vec![], vec![run_ends, values]);
    match d {
        Err(e) => println!("rejected: {e}"),
        Ok(d) => {
            d.validate_full().expect("validate_full");
            let a = make_array(d);
            let ra = a.as_run::<Int32Type>();
            let p = ra.get_physical_index(50);
            panic!(
                "ACCEPTED: len={} run_ends={:?} physical index of row 50 = {} (values has {} entries)",
                ra.len(),
                ra.run_ends().values(),
                p,
                ra.values().len()
            );
        }
    }
}
