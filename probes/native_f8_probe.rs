use arrow_array::cast::AsArray;
use arrow_array::Array;
use arrow_csv::ReaderBuilder;
use arrow_schema::{DataType, Field, Schema};
use std::sync::Arc;

#[test]
fn split_multibyte_char_across_fields() {
    // one row, two string columns; the comma sits inside what would be one 3-byte character if the fields
    // were glued together: "a\xE2" , "\x96\xA1"
    let data: &[u8] = b"a\xE2,\x96\xA1\n";
    let schema = Arc::new(Schema::new(vec![
        Field::new("x", DataType::Utf8, true),
        Field::new("y", DataType::Utf8, true),
    ]));
    let reader = ReaderBuilder::new(schema).build(std::io::Cursor::new(data)).unwrap();
    for batch in reader {
        match batch {
            Ok(b) => {
                for c in b.columns() {
                    let r = c.to_data().validate_full();
                    println!("column validate_full: {:?}", r.as_ref().map_err(|e| e.to_string()));
                    let s = c.as_string::<i32>();
                    let bytes = s.value(0).as_bytes().to_vec();
                    println!("value bytes {:x?} valid_utf8={}", bytes, std::str::from_utf8(&bytes).is_ok());
                    assert!(r.is_ok(), "reader returned an invalid Utf8 array");
                }
            }
            Err(e) => println!("rejected: {e}"),
        }
    }
}
