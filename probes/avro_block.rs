use super::*;

fn stub_format(_a: std::fmt::Arguments<'_>) -> String { String::new() }

#[kani::proof]
#[kani::unwind(12)]
#[kani::stub(alloc::fmt::format, stub_format)]
fn block_decoder_chunking() {
    const N: usize = 20;
    let bytes: [u8; N] = kani::any();
    let n: usize = kani::any();
    kani::assume(n <= N);
    // keep the advertised block size small so that a complete block fits the bound
    kani::assume(bytes[0] < 0x80 && bytes[1] < 0x80 && bytes[1] <= 4);
    let k: usize = kani::any();
    kani::assume(k <= n);
    let input = &bytes[..n];

    let mut d1 = BlockDecoder::default();
    let r1 = d1.decode(input);
    let b1 = d1.flush();

    let mut d2 = BlockDecoder::default();
    let r2a = d2.decode(&input[..k]);
    let (r2, used2) = match r2a {
        Ok(u) if u == k => match d2.decode(&input[k..]) { Ok(v) => (Ok(()), k + v), Err(e) => (Err(e), 0) },
        Ok(u) => (Ok(()), u),
        Err(e) => (Err(e), 0),
    };
    let b2 = d2.flush();
    match (r1, r2) {
        (Ok(u1), Ok(())) => {
            assert!(u1 == used2);
            match (b1, b2) {
                (Some(x), Some(y)) => {
                    assert!(x.count == y.count && x.sync == y.sync && x.data.len() == y.data.len());
                    let j: usize = kani::any();
                    kani::assume(j < x.data.len());
                    assert!(x.data[j] == y.data[j]);
                    std::mem::forget(x); std::mem::forget(y);
                }
                (None, None) => {}
                _ => assert!(false),
            }
        }
        (Err(_), Err(_)) => {}
        _ => assert!(false),
    }
}
