use super::*;

#[kani::proof]
#[kani::unwind(6)]
fn utf8_bounds_window() {
    let b: [u8; 3] = kani::any();
    let n: usize = kani::any();
    kani::assume(n <= 3);
    let s = match std::str::from_utf8(&b[..n]) { Ok(s) => s, Err(_) => return };
    let start: i64 = kani::any();
    let length: Option<usize> = if kani::any() { Some(kani::any()) } else { None };
    let (a, e) = utf8_bounds(s, start, length);
    assert!(a <= e && e <= n);
    assert!(s.is_char_boundary(a) && s.is_char_boundary(e));
    // definition: number of chars before `a`
    let nchars = s.chars().count() as i64;
    let want_start_char: i64 = if start >= 0 { if start < nchars { start } else { nchars } } else { let t = nchars + start; if t < 0 { 0 } else { t } };
    assert!(s[..a].chars().count() as i64 == want_start_char);
    if let Some(l) = length {
        let rem = (nchars - want_start_char) as usize;
        let want = if l < rem { l } else { rem };
        assert!(s[a..e].chars().count() == want);
    } else {
        assert!(e == n);
    }
    if s.is_ascii() { assert!(ascii_bounds(s, start, length) == (a, e)); }
}
