//@ property: C01
//@ crate: arrow-buffer
//@ target: arrow-buffer/src/builder/null.rs
// Child module of arrow-buffer/src/builder/null.rs (lazy materialisation of the validity bitmap).
use super::*;

fn stub_format(_a: std::fmt::Arguments<'_>) -> String {
    String::new()
}

//@ tier: quick
//@ functions: arrow_buffer::NullBufferBuilder::{append_non_null, append_null, append_n_non_nulls, append_n_nulls, append, is_valid, len, finish, materialize}, NullBuffer::new
//@ bound: builder in its un-materialised state with an arbitrary length 0..=12 (all rows valid so far) OR materialised over an arbitrary 12-bit mask; ONE operation among {append_non_null, append_null, append_n_non_nulls(k), append_n_nulls(k)} with k <= 6, then finish: validity sequence = old sequence ++ appended values, null_count exact, None exactly when no row is null and the bitmap was never materialised; unwind 8
//@ stub: alloc::fmt::format -> empty String
#[kani::proof]
#[kani::unwind(8)]
#[kani::stub(alloc::fmt::format, stub_format)]
fn c01_null_builder_step_then_finish() {
    let materialised: bool = kani::any();
    let len: usize = kani::any();
    kani::assume(len <= 12);
    let raw: u16 = kani::any();
    let mask: u16 = (1u16 << len) - 1;
    let old: u16 = if materialised { raw & mask } else { mask };
    let mut b = if materialised {
        let mut buffer = MutableBuffer::new(64);
        buffer.extend_from_slice(&old.to_le_bytes()[..(len + 7) / 8]);
        NullBufferBuilder::new_from_buffer(buffer, len)
    } else {
        NullBufferBuilder::new_with_len(len)
    };
    let op: u8 = kani::any();
    kani::assume(op < 4);
    let k: usize = kani::any();
    kani::assume(k <= 6);
    let (added, val) = match op {
        0 => {
            b.append_non_null();
            (1, true)
        }
        1 => {
            b.append_null();
            (1, false)
        }
        2 => {
            b.append_n_non_nulls(k);
            (k, true)
        }
        _ => {
            b.append_n_nulls(k);
            (k, false)
        }
    };
    let n = len + added;
    assert!(b.len() == n, "length advanced");
    let i: usize = kani::any();
    kani::assume(i < n);
    let want = if i < len { (old >> i) & 1 == 1 } else { val };
    assert!(b.is_valid(i) == want, "validity sequence");
    let null_rows = (len - (old & mask).count_ones() as usize) + if val { 0 } else { added };
    let out = b.finish();
    match &out {
        None => assert!(null_rows == 0 && !materialised && (val || added == 0), "no bitmap only if nothing was ever null"),
        Some(nb) => {
            assert!(nb.len() == n, "finished length");
            assert!(nb.null_count() == null_rows, "null count is exact");
            assert!(nb.is_valid(i) == want, "finished validity");
        }
    }
    kani::cover!(!materialised && op == 3 && k > 0 && len > 8, "materialisation on the first null");
    kani::cover!(!materialised && out.is_none() && len > 0);
    kani::cover!(materialised && op == 2 && k == 6);
    std::mem::forget(out);
    std::mem::forget(b);
}
