//@ property: C01
//@ crate: arrow-buffer
//@ target: arrow-buffer/src/builder/null.rs
// Child module of arrow-buffer/src/builder/null.rs (lazy materialisation of the validity bitmap).
use super::*;

fn stub_format(_a: std::fmt::Arguments<'_>) -> String {
    String::new()
}

fn null_builder_step<const MAT: bool, const LEN: usize, const K: usize>() {
    let materialised = MAT;
    let len = LEN;
    let k = K;
    let raw: u16 = kani::any();
    let mask: u16 = (1u16 << len) - 1;
    let old: u16 = if materialised { raw & mask } else { mask };
    let mut b = if materialised {
        let mut buffer = MutableBuffer::new(64);
        buffer.extend_from_slice(&old.to_le_bytes()[..(len + 7) / 8]);
        NullBufferBuilder::new_from_buffer(buffer, len)
    } else {
        NullBufferBuilder::new_with_len(len)
    };
    let op: u8 = kani::any();
    kani::assume(op < 4);
    let (added, val) = match op {
        0 => {
            b.append_non_null();
            (1, true)
        }
        1 => {
            b.append_null();
            (1, false)
        }
        2 => {
            b.append_n_non_nulls(k);
            (k, true)
        }
        _ => {
            b.append_n_nulls(k);
            (k, false)
        }
    };
    let n = len + added;
    assert!(b.len() == n, "length advanced");
    let i: usize = kani::any();
    kani::assume(i < n);
    let want = if i < len { (old >> i) & 1 == 1 } else { val };
    assert!(b.is_valid(i) == want, "validity sequence");
    let null_rows = (len - (old & mask).count_ones() as usize) + if val { 0 } else { added };
    let out = b.finish();
    match &out {
        None => assert!(null_rows == 0 && !materialised && (val || added == 0), "no bitmap only if nothing was ever null"),
        Some(nb) => {
            assert!(nb.len() == n, "finished length");
            assert!(nb.null_count() == null_rows, "null count is exact");
            assert!(nb.is_valid(i) == want, "finished validity");
        }
    }
    kani::cover!(op == 3, "append_n_nulls");
    kani::cover!(op == 0 && (materialised || out.is_none()));
    std::mem::forget(out);
    std::mem::forget(b);
}

macro_rules! null_builder_instance {
    ($name:ident, $mat:expr, $len:expr, $k:expr) => {
        //@ tier: quick
        //@ timeout: 600
        //@ functions: arrow_buffer::NullBufferBuilder::{append_non_null, append_null, append_n_non_nulls, append_n_nulls, is_valid, len, finish, materialize, new_with_len, new_from_buffer}, NullBuffer::new
        //@ bound: ONE builder step then finish; instantiation (materialised?, current length, k): the builder is un-materialised with that many valid rows, or materialised over an ARBITRARY mask of that length; operation chosen symbolically among append_non_null / append_null / append_n_non_nulls(k) / append_n_nulls(k): validity sequence = old ++ appended, null_count exact, None exactly when nothing was ever null and the bitmap was never materialised (lengths are concrete because buffer growth with symbolic sizes exceeds the memory cap); unwind 8
        //@ stub: alloc::fmt::format -> empty String
        #[kani::proof]
        #[kani::unwind(8)]
        #[kani::stub(alloc::fmt::format, stub_format)]
        fn $name() {
            null_builder_step::<{ $mat }, { $len }, { $k }>();
        }
    };
}

null_builder_instance!(c01_null_builder_step_lazy_len11, false, 11, 5);
null_builder_instance!(c01_null_builder_step_lazy_empty, false, 0, 3);
null_builder_instance!(c01_null_builder_step_materialised_len11, true, 11, 5);
null_builder_instance!(c01_null_builder_step_materialised_len8, true, 8, 1);
