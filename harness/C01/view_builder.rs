//@ property: C01
//@ crate: arrow-array
//@ target: arrow-array/src/builder/generic_bytes_view_builder.rs
// Child module of arrow-array/src/builder/generic_bytes_view_builder.rs: one append_array step of the view builder from
// builder states of three concrete shapes (struct literal; the bytes are arbitrary).  finish() uses new_unchecked,
// so a view that points at the wrong block is returned to the user unvalidated.
use super::*;

fn stub_format(_a: std::fmt::Arguments<'_>) -> String {
    String::new()
}

fn view(length: u32, buffer_index: u32, offset: u32, data: &[u8]) -> u128 {
    let prefix = u32::from_le_bytes([data[0], data[1], data[2], data[3]]);
    ByteView { length, prefix, buffer_index, offset }.as_u128()
}

// shape 0: fresh builder; shape 1: one long value still in the in-progress block, no completed block;
// shape 2: one completed block (16 bytes, one view into it) and one long value in the in-progress block
fn append_array_step(shape: u8) {
    let own: [u8; 13] = kani::any(); // the long value sitting in the in-progress block
    let done: [u8; 16] = kani::any(); // the value in the completed block (shape 2)
    let mut views = Vec::with_capacity(8);
    let mut nb = NullBufferBuilder::new(8);
    let mut completed = Vec::with_capacity(4);
    let mut in_progress = Vec::with_capacity(64);
    if shape == 2 {
        completed.push(Buffer::from_vec(done.to_vec()));
        views.push(view(16, 0, 0, &done));
        nb.append_non_null();
    }
    if shape >= 1 {
        in_progress.extend_from_slice(&own);
        views.push(view(13, completed.len() as u32, 0, &own));
        nb.append_non_null();
    }
    let n0 = views.len();
    let mut b = GenericByteViewBuilder::<BinaryViewType> {
        views_buffer: views,
        null_buffer_builder: nb,
        completed,
        in_progress,
        block_size: BlockSizeGrowthStrategy::Fixed { size: 64 },
        string_tracker: None,
        max_deduplication_len: None,
        phantom: PhantomData,
    };
    // the appended array: one long value somewhere inside its own 20-byte data buffer
    let data: [u8; 20] = kani::any();
    let o: u32 = kani::any();
    let l: u32 = kani::any();
    kani::assume(l >= 13 && l <= 16 && o <= 4);
    let arr_views: Vec<u128> = vec![view(l, 0, o, &data[o as usize..])];
    let arr = unsafe { GenericByteViewArray::<BinaryViewType>::new_unchecked(ScalarBuffer::from(arr_views), vec![Buffer::from_vec(data.to_vec())], None) };
    b.append_array(&arr);

    assert!(b.views_buffer.len() == n0 + 1, "one view appended");
    // every view of the builder must reference bytes that exist, and the right ones
    let blocks = b.completed.len() + (!b.in_progress.is_empty()) as usize;
    let nv = ByteView::from(b.views_buffer[n0]);
    assert!(nv.length == l && (nv.buffer_index as usize) < blocks, "appended view: length kept, block index in range");
    assert!((nv.buffer_index as usize) < b.completed.len(), "appended view references a completed block");
    let blk = b.completed[nv.buffer_index as usize].as_slice();
    assert!(nv.offset as usize + l as usize <= blk.len(), "appended view lies inside its block");
    let j: usize = kani::any();
    kani::assume(j < l as usize);
    assert!(blk[nv.offset as usize + j] == data[o as usize + j], "appended view denotes the appended value");
    if shape >= 1 {
        let ov = ByteView::from(b.views_buffer[n0 - 1]);
        assert!((ov.buffer_index as usize) < b.completed.len(), "the builder's own long value now lives in a completed block");
        let oblk = b.completed[ov.buffer_index as usize].as_slice();
        let k: usize = kani::any();
        kani::assume(k < 13);
        assert!(ov.length == 13 && ov.offset as usize + 13 <= oblk.len() && oblk[ov.offset as usize + k] == own[k], "earlier view still denotes its value");
    }
    kani::cover!(l == 16 && o == 4);
    std::mem::forget(arr);
    std::mem::forget(b);
}

//@ tier: quick
//@ timeout: 900
//@ functions: arrow_array::builder::GenericByteViewBuilder::<BinaryViewType>::{append_array, flush_in_progress, push_completed}
//@ bound: one append_array step on a FRESH builder; appended array = one long value (13..=16 bytes at offset 0..=4 of its own 20-byte data buffer, arbitrary bytes): afterwards the new view's block index is in range, the view lies inside that block and denotes exactly the appended bytes; unwind 4
//@ stub: alloc::fmt::format -> empty String
#[kani::proof]
#[kani::unwind(4)]
#[kani::stub(alloc::fmt::format, stub_format)]
fn c01_view_builder_append_array_fresh() {
    append_array_step(0);
}

//@ tier: quick
//@ timeout: 900
//@ functions: arrow_array::builder::GenericByteViewBuilder::<BinaryViewType>::{append_array, flush_in_progress, push_completed}
//@ bound: as c01_view_builder_append_array_fresh from a builder holding one long value (13 arbitrary bytes) in its unsealed in-progress block and no completed block; additionally the earlier view still denotes its value; unwind 4
//@ stub: alloc::fmt::format -> empty String
#[kani::proof]
#[kani::unwind(4)]
#[kani::stub(alloc::fmt::format, stub_format)]
fn c01_view_builder_append_array_after_long_value() {
    append_array_step(1);
}

//@ tier: quick
//@ timeout: 900
//@ functions: arrow_array::builder::GenericByteViewBuilder::<BinaryViewType>::{append_array, flush_in_progress, push_completed}
//@ bound: as c01_view_builder_append_array_after_long_value from a builder that also has one completed block (views must be re-based by the number of blocks); unwind 4
//@ stub: alloc::fmt::format -> empty String
#[kani::proof]
#[kani::unwind(4)]
#[kani::stub(alloc::fmt::format, stub_format)]
fn c01_view_builder_append_array_with_completed_block() {
    append_array_step(2);
}
