//@ property: C01
//@ also: C19
//@ crate: arrow-buffer
//@ target: arrow-buffer/src/builder/boolean.rs
// Child module of arrow-buffer/src/builder/boolean.rs. One-step inductive obligations: from an ARBITRARY
// builder state satisfying the representation invariant, each operation yields the bit sequence the
// definition says and re-establishes the invariant (so the result holds for builder histories of any length).
use super::*;

fn stub_format(_a: std::fmt::Arguments<'_>) -> String {
    String::new()
}

// invariant: buffer.len() == ceil(len / 8) and every bit at position >= len is zero
fn any_builder() -> (BooleanBufferBuilder, [u8; 2], usize) {
    let raw: [u8; 2] = kani::any();
    let len: usize = kani::any();
    kani::assume(len >= 9 && len <= 16);
    let mask: u16 = if len == 16 { u16::MAX } else { (1u16 << len) - 1 };
    let word = u16::from_le_bytes(raw) & mask;
    let bytes = word.to_le_bytes();
    let mut buffer = MutableBuffer::new(64);
    buffer.extend_from_slice(&bytes);
    (BooleanBufferBuilder { buffer, len }, bytes, len)
}

fn bit(b: &[u8], i: usize) -> bool {
    (b[i / 8] >> (i % 8)) & 1 == 1
}

fn check_invariant(b: &BooleanBufferBuilder) {
    assert!(b.buffer.len() == (b.len + 7) / 8, "invariant: byte length = ceil(len / 8)");
    if b.len % 8 != 0 {
        let last = b.buffer.as_slice()[b.buffer.len() - 1];
        assert!(last >> (b.len % 8) == 0, "invariant: bits beyond len are zero");
    }
}

//@ tier: quick
//@ functions: arrow_buffer::BooleanBufferBuilder::{append, append_n, advance, get_bit, len}
//@ bound: arbitrary builder state of 9..=16 bits; append(v) and append_n(k <= 20, v): earlier bits unchanged, new bits = v, length advanced, invariant preserved; unwind 8
//@ assume: representation invariant of BooleanBufferBuilder (re-asserted after the step)
//@ stub: alloc::fmt::format -> empty String
#[kani::proof]
#[kani::unwind(8)]
#[kani::stub(alloc::fmt::format, stub_format)]
fn c01_boolean_builder_append_step() {
    let (mut b, before, len) = any_builder();
    let v: bool = kani::any();
    let single: bool = kani::any();
    let k: usize = kani::any();
    kani::assume(k <= 20);
    let added = if single { 1 } else { k };
    if single {
        b.append(v);
    } else {
        b.append_n(k, v);
    }
    assert!(b.len() == len + added, "length advanced");
    check_invariant(&b);
    let i: usize = kani::any();
    kani::assume(i < len + added);
    let got = b.get_bit(i);
    if i < len {
        assert!(got == bit(&before, i), "existing bits unchanged");
    } else {
        assert!(got == v, "appended bits have the appended value");
    }
    kani::cover!(!single && k == 20 && v && len % 8 != 0, "append_n(true) across bytes from an unaligned length");
    kani::cover!(single && len == 16, "append at a byte boundary");
    kani::cover!(!single && k == 0);
    std::mem::forget(b);
}


//@ tier: quick
//@ functions: arrow_buffer::BooleanBufferBuilder::{truncate, resize, set_bit, finish}, BooleanBuffer::new
//@ bound: arbitrary builder state of 9..=16 bits; truncate(n) / set_bit(i, v) then finish: kept bits unchanged, invariant preserved, finished buffer has exactly `len` bits with the builder's values; unwind 8
//@ assume: representation invariant of BooleanBufferBuilder
//@ stub: alloc::fmt::format -> empty String
#[kani::proof]
#[kani::unwind(8)]
#[kani::stub(alloc::fmt::format, stub_format)]
fn c01_boolean_builder_truncate_set_finish_step() {
    let (mut b, before, len) = any_builder();
    let n: usize = kani::any();
    kani::assume(n <= 20);
    b.truncate(n);
    let new_len = if n <= len { n } else { len };
    assert!(b.len() == new_len, "truncate never grows");
    check_invariant(&b);
    let j: usize = kani::any();
    let v: bool = kani::any();
    if j < new_len {
        b.set_bit(j, v);
        check_invariant(&b);
    }
    let out = b.finish();
    assert!(out.len() == new_len && b.len() == 0, "finish hands over exactly len bits and resets the builder");
    let i: usize = kani::any();
    kani::assume(i < new_len);
    let want = if j < new_len && i == j { v } else { bit(&before, i) };
    assert!(out.value(i) == want, "finished bits");
    kani::cover!(n < len && n % 8 != 0);
    kani::cover!(n > len);
    std::mem::forget(out);
    std::mem::forget(b);
}

//@ tier: quick
//@ functions: arrow_buffer::BooleanBufferBuilder::append_word
//@ bound: arbitrary builder state of 9..=16 bits (any sub-byte offset), arbitrary 64-bit word, count 0..=64: appended bit j = bit j of the word for j < count (also when the shifted word spills into a ninth byte), earlier bits unchanged, bits of the word above `count` ignored, invariant preserved; unwind 11
//@ assume: representation invariant of BooleanBufferBuilder
//@ stub: alloc::fmt::format -> empty String
#[kani::proof]
#[kani::unwind(11)]
#[kani::stub(alloc::fmt::format, stub_format)]
fn c01_boolean_builder_append_word_step() {
    let (mut b, before, len) = any_builder();
    let word: u64 = kani::any();
    let count: usize = kani::any();
    kani::assume(count <= 64);
    b.append_word(word, count);
    assert!(b.len() == len + count, "length advanced by count");
    check_invariant(&b);
    let i: usize = kani::any();
    kani::assume(i < len + count);
    if i < len {
        assert!(b.get_bit(i) == bit(&before, i), "existing bits unchanged");
    } else {
        assert!(b.get_bit(i) == ((word >> (i - len)) & 1 == 1), "appended bit = word bit");
    }
    kani::cover!(count == 63 && len % 8 == 7 && i == len + 62, "partial word spilling into a ninth byte");
    kani::cover!(count == 64 && len % 8 != 0);
    kani::cover!(count == 0);
    std::mem::forget(b);
}
