//@ property: C10
//@ crate: arrow-ord
//@ target: arrow-ord/src/rank.rs
// Child module of arrow-ord/src/rank.rs.
use super::*;

fn stub_format(_a: std::fmt::Arguments<'_>) -> String {
    String::new()
}

// rank by definition: number of rows ordered <= row i under the comparator (ties share the highest rank),
// for an all-valid column
fn rank_by_definition<T: ArrowNativeTypeOp, const N: usize>(v: &[T; N], i: usize, descending: bool) -> u32 {
    let mut r = 0u32;
    let mut j = 0;
    while j < N {
        let o = if descending { v[i].compare(v[j]) } else { v[j].compare(v[i]) };
        // rows j ordered at or before row i
        if o != Ordering::Greater {
            r += 1;
        }
        j += 1;
    }
    r
}

//@ tier: quick
//@ timeout: 900
//@ functions: arrow_ord::rank::{primitive_rank::<f64>, rank_impl}, core::slice::sort_unstable_by (2 elements), ArrowNativeTypeOp::{compare, is_eq} for f64
//@ bound: all-valid column of 2 arbitrary f64 bit patterns (every NaN payload, signed zeros, infinities), all four SortOptions: rank[i] = number of rows ordered at or before row i under the totalOrder comparator, ties share a rank exactly when compare says Equal; unwind 5
//@ stub: alloc::fmt::format -> empty String
#[kani::proof]
#[kani::unwind(5)]
#[kani::stub(alloc::fmt::format, stub_format)]
fn c10_rank_two_f64_rows() {
    let v = [f64::from_bits(kani::any()), f64::from_bits(kani::any())];
    let options = SortOptions { descending: kani::any(), nulls_first: kani::any() };
    let out = primitive_rank(&v[..], None, options);
    assert!(out.len() == 2);
    let i: usize = kani::any();
    kani::assume(i < 2);
    assert!(out[i] == rank_by_definition(&v, i, options.descending), "rank follows the comparator");
    assert!((out[0] == out[1]) == (v[0].compare(v[1]) == Ordering::Equal), "tie exactly when the comparator says Equal");
    kani::cover!(v[0] == 0.0 && v[1] == 0.0 && v[0].to_bits() != v[1].to_bits(), "signed zeros are different ranks");
    kani::cover!(v[0].is_nan() && v[0].to_bits() == v[1].to_bits(), "identical NaNs tie");
    kani::cover!(options.descending && out[0] == 1);
    std::mem::forget(out);
}

//@ tier: quick
//@ timeout: 900
//@ functions: arrow_ord::rank::rank_impl::<i8, _, _> (the part of primitive_rank after the valid rows are gathered)
//@ bound: 3 rows of which exactly 2 are valid, at arbitrary distinct row positions (the gathered `valid` vector has concrete length 2; gathering it through NullBuffer::valid_indices is C19's bit-index-iterator obligation), arbitrary i8 values, all four SortOptions: the valid rows are ranked by the comparator between themselves (after the nulls when nulls come first), the null row gets the documented null rank; unwind 6
//@ stub: alloc::fmt::format -> empty String
#[kani::proof]
#[kani::unwind(6)]
#[kani::stub(alloc::fmt::format, stub_format)]
fn c10_rank_impl_two_valid_one_null() {
    let a: i8 = kani::any();
    let b: i8 = kani::any();
    let ia: u32 = kani::any();
    let ib: u32 = kani::any();
    kani::assume(ia < ib && ib < 3);
    let null_row = (3 - ia - ib) as usize;
    let options = SortOptions { descending: kani::any(), nulls_first: kani::any() };
    let out = rank_impl(3, vec![(a, ia), (b, ib)], options, i8::compare, i8::is_eq);
    assert!(out.len() == 3);
    let base = if options.nulls_first { 1 } else { 0 };
    // rank = number of rows at or before this one in the requested order
    let a_before_b = if options.descending { a >= b } else { a <= b };
    let b_before_a = if options.descending { b >= a } else { b <= a };
    assert!(out[ia as usize] == base + 1 + b_before_a as u32, "rank of the first valid row");
    assert!(out[ib as usize] == base + 1 + a_before_b as u32, "rank of the second valid row");
    assert!(out[null_row] == if options.nulls_first { 1 } else { 3 }, "rank of the null row");
    kani::cover!(a == b && options.nulls_first);
    kani::cover!(a < b && options.descending && null_row == 1);
    std::mem::forget(out);
}

//@ tier: quick
//@ timeout: 900
//@ functions: arrow_ord::rank::{primitive_rank::<i8>, rank_impl} without a validity buffer
//@ bound: 3 rows of arbitrary i8, no nulls, both directions: rank of row i = number of rows at or before it in the requested order (ties share the highest rank of the group); unwind 6
//@ stub: alloc::fmt::format -> empty String
#[kani::proof]
#[kani::unwind(6)]
#[kani::stub(alloc::fmt::format, stub_format)]
fn c10_rank_three_i8_rows_no_nulls() {
    let v: [i8; 3] = kani::any();
    let options = SortOptions { descending: kani::any(), nulls_first: kani::any() };
    let out = primitive_rank(&v[..], None, options);
    assert!(out.len() == 3);
    let i: usize = kani::any();
    kani::assume(i < 3);
    let le = |x: i8, y: i8| if options.descending { x >= y } else { x <= y };
    let r = le(v[0], v[i]) as u32 + le(v[1], v[i]) as u32 + le(v[2], v[i]) as u32;
    assert!(out[i] == r, "rank follows the comparator");
    kani::cover!(v[0] == v[1] && v[1] != v[2]);
    kani::cover!(options.descending && out[i] == 1);
    std::mem::forget(out);
}
