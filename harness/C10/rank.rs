//@ property: C10
//@ crate: arrow-ord
//@ target: arrow-ord/src/rank.rs
// Child module of arrow-ord/src/rank.rs.
use super::*;

fn stub_format(_a: std::fmt::Arguments<'_>) -> String {
    String::new()
}

// rank by definition: number of rows ordered <= row i under the comparator (ties share the highest rank),
// for an all-valid column
fn rank_by_definition<T: ArrowNativeTypeOp, const N: usize>(v: &[T; N], i: usize, descending: bool) -> u32 {
    let mut r = 0u32;
    let mut j = 0;
    while j < N {
        let o = if descending { v[i].compare(v[j]) } else { v[j].compare(v[i]) };
        // rows j ordered at or before row i
        if o != Ordering::Greater {
            r += 1;
        }
        j += 1;
    }
    r
}

//@ tier: quick
//@ timeout: 900
//@ functions: arrow_ord::rank::{primitive_rank::<f64>, rank_impl}, core::slice::sort_unstable_by (2 elements), ArrowNativeTypeOp::{compare, is_eq} for f64
//@ bound: all-valid column of 2 arbitrary f64 bit patterns (every NaN payload, signed zeros, infinities), all four SortOptions: rank[i] = number of rows ordered at or before row i under the totalOrder comparator, ties share a rank exactly when compare says Equal; unwind 5
//@ stub: alloc::fmt::format -> empty String
#[kani::proof]
#[kani::unwind(5)]
#[kani::stub(alloc::fmt::format, stub_format)]
fn c10_rank_two_f64_rows() {
    let v = [f64::from_bits(kani::any()), f64::from_bits(kani::any())];
    let options = SortOptions { descending: kani::any(), nulls_first: kani::any() };
    let out = primitive_rank(&v[..], None, options);
    assert!(out.len() == 2);
    let i: usize = kani::any();
    kani::assume(i < 2);
    assert!(out[i] == rank_by_definition(&v, i, options.descending), "rank follows the comparator");
    assert!((out[0] == out[1]) == (v[0].compare(v[1]) == Ordering::Equal), "tie exactly when the comparator says Equal");
    kani::cover!(v[0] == 0.0 && v[1] == 0.0 && v[0].to_bits() != v[1].to_bits(), "signed zeros are different ranks");
    kani::cover!(v[0].is_nan() && v[0].to_bits() == v[1].to_bits(), "identical NaNs tie");
    kani::cover!(options.descending && out[0] == 1);
    std::mem::forget(out);
}

//@ tier: quick
//@ timeout: 900
//@ functions: arrow_ord::rank::{primitive_rank::<i8>, rank_impl} with a validity buffer
//@ bound: 3 rows of i8 with symbolic validity (validity buffer present), all four SortOptions: valid rows are ranked by the comparator among themselves, null rows share the rank documented for nulls_first / nulls_last; unwind 6
//@ stub: alloc::fmt::format -> empty String
#[kani::proof]
#[kani::unwind(6)]
#[kani::stub(alloc::fmt::format, stub_format)]
fn c10_rank_three_i8_rows_with_nulls() {
    let v: [i8; 3] = kani::any();
    let valid: [bool; 3] = kani::any();
    let options = SortOptions { descending: kani::any(), nulls_first: kani::any() };
    let nulls = NullBuffer::from(&valid[..]);
    let out = primitive_rank(&v[..], Some(&nulls), options);
    assert!(out.len() == 3);
    let n_null = (!valid[0]) as u32 + (!valid[1]) as u32 + (!valid[2]) as u32;
    let i: usize = kani::any();
    kani::assume(i < 3);
    if valid[i] {
        // rows at or before row i among the valid rows, plus all nulls when they come first
        let mut r = if options.nulls_first { n_null } else { 0 };
        let mut j = 0;
        while j < 3 {
            if valid[j] {
                let o = if options.descending { v[i].cmp(&v[j]) } else { v[j].cmp(&v[i]) };
                if o != Ordering::Greater {
                    r += 1;
                }
            }
            j += 1;
        }
        assert!(out[i] == r, "rank of a valid row");
    } else {
        assert!(out[i] == if options.nulls_first { n_null } else { 3 }, "rank shared by the null rows");
    }
    kani::cover!(n_null == 1 && valid[i] && options.nulls_first);
    kani::cover!(n_null == 0 && v[0] == v[1] && v[1] != v[2]);
    std::mem::forget(out);
    std::mem::forget(nulls);
}
