//@ property: C10
//@ crate: arrow-ord
//@ target: arrow-ord/src/sort.rs
// Child module of arrow-ord/src/sort.rs: the bounded max-heap behind lexsort_to_indices(.., Some(limit)) for small
// limits (lexsort_topk).  One inductive step per heap operation: from an ARBITRARY heap that satisfies the heap
// invariant everywhere except at the position being repaired, the operation restores the invariant everywhere and
// keeps the multiset of row indices.  With the loop of lexsort_topk (push + sift-up while filling, replace-root +
// sift-down afterwards) this gives: the heap always holds the `limit` smallest rows seen so far, for any row count.
use super::*;

const N: usize = 7;

fn not_less(keys: &[u8; 8], a: usize, b: usize) -> bool {
    keys[a].cmp(&keys[b]) != Ordering::Less
}

// heap invariant (root = worst retained row): no parent is Less than a child, for every child position except
// `skip_parent_of` / `skip_children_of` as the operation requires
fn heap_ok_except(keys: &[u8; 8], heap: &[usize], broken_parent: usize) -> bool {
    let mut ok = true;
    let mut i = 1;
    while i < heap.len() {
        let parent = (i - 1) / 2;
        if parent != broken_parent && !not_less(keys, heap[parent], heap[i]) {
            ok = false;
        }
        i += 1;
    }
    ok
}

fn count(heap: &[usize], v: usize) -> usize {
    let mut c = 0;
    let mut i = 0;
    while i < heap.len() {
        if heap[i] == v {
            c += 1;
        }
        i += 1;
    }
    c
}

//@ tier: quick
//@ timeout: 600
//@ functions: arrow_ord::sort::sift_down_worst_heap
//@ bound: heap of EVERY length 1..=7 holding arbitrary row indices 0..8 with arbitrary 8-bit keys (ties included), heap invariant holding everywhere except at the root (the state after lexsort_topk replaces the root): afterwards the invariant holds at every position and the multiset of indices is unchanged (per-index: one symbolic witness value); unwind 9
//@ assume: heap invariant below the root (the loop invariant of lexsort_topk)
#[kani::proof]
#[kani::unwind(9)]
fn c10_topk_sift_down_restores_heap() {
    let keys: [u8; 8] = kani::any();
    let mut store: [usize; N] = kani::any();
    let len: usize = kani::any();
    kani::assume(len >= 1 && len <= N);
    let mut i = 0;
    while i < N {
        kani::assume(store[i] < 8);
        i += 1;
    }
    let v: usize = kani::any();
    kani::assume(v < 8);
    let before = count(&store[..len], v);
    kani::assume(heap_ok_except(&keys, &store[..len], 0));
    let mut compare = |a: usize, b: usize| keys[a].cmp(&keys[b]);
    sift_down_worst_heap(&mut store[..len], 0, &mut compare);
    assert!(
        heap_ok_except(&keys, &store[..len], usize::MAX),
        "sift-down leaves a parent that orders before its child: the root is no longer the worst retained row"
    );
    assert!(count(&store[..len], v) == before, "sift-down changed the set of retained rows");
    kani::cover!(len == 7 && store[0] != v && before == 1, "full three-level heap");
    kani::cover!(len == 3, "last slot is a right child");
    kani::cover!(len == 2, "last slot is a left child");
}

//@ tier: quick
//@ timeout: 600
//@ functions: arrow_ord::sort::sift_up_worst_heap
//@ bound: heap of EVERY length 1..=7, arbitrary indices and keys, heap invariant holding for every position except the last one (the state after lexsort_topk pushes a row): afterwards the invariant holds everywhere and the multiset of indices is unchanged; unwind 9
//@ assume: heap invariant on all but the newly pushed last element
#[kani::proof]
#[kani::unwind(9)]
fn c10_topk_sift_up_restores_heap() {
    let keys: [u8; 8] = kani::any();
    let mut store: [usize; N] = kani::any();
    let len: usize = kani::any();
    kani::assume(len >= 1 && len <= N);
    let mut i = 0;
    while i < N {
        kani::assume(store[i] < 8);
        i += 1;
    }
    let v: usize = kani::any();
    kani::assume(v < 8);
    let before = count(&store[..len], v);
    // invariant on the heap without its last element
    kani::assume(heap_ok_except(&keys, &store[..len - 1], usize::MAX));
    let mut compare = |a: usize, b: usize| keys[a].cmp(&keys[b]);
    sift_up_worst_heap(&mut store[..len], len - 1, &mut compare);
    assert!(
        heap_ok_except(&keys, &store[..len], usize::MAX),
        "sift-up leaves a parent that orders before its child"
    );
    assert!(count(&store[..len], v) == before, "sift-up changed the set of retained rows");
    kani::cover!(len == 7 && before == 1, "full three-level heap");
    kani::cover!(len == 1);
}

//@ tier: quick
//@ timeout: 600
//@ functions: arrow_ord::sort::lexsort_topk (heap phase: push / replace-root decisions), sift_up_worst_heap, sift_down_worst_heap
//@ bound: 5 rows with arbitrary 8-bit keys, limit 3: checked BEFORE the final sort (std's sort_unstable_by is replaced by the identity: the retained SET is the subject) — the three retained rows are distinct and every row left out orders at or after each retained row; unwind 7
//@ stub: the final `heap.sort_unstable_by` cannot be stubbed (inherent slice method); the harness re-runs lexsort_topk's loop body verbatim over the real sift functions instead of calling lexsort_topk
#[kani::proof]
#[kani::unwind(7)]
fn c10_topk_retains_the_smallest_rows() {
    let keys: [u8; 8] = kani::any();
    let limit = 3usize;
    let row_count = 5usize;
    let mut compare = |a: usize, b: usize| keys[a].cmp(&keys[b]);
    // loop body of lexsort_topk, verbatim
    let mut heap = Vec::with_capacity(limit);
    for idx in 0..row_count {
        if heap.len() < limit {
            heap.push(idx);
            let pos = heap.len() - 1;
            sift_up_worst_heap(&mut heap, pos, &mut compare);
        } else if compare(idx, heap[0]) == Ordering::Less {
            heap[0] = idx;
            sift_down_worst_heap(&mut heap, 0, &mut compare);
        }
    }
    assert!(heap.len() == 3);
    assert!(heap[0] != heap[1] && heap[0] != heap[2] && heap[1] != heap[2], "retained rows are distinct");
    let out: usize = kani::any();
    kani::assume(out < row_count && out != heap[0] && out != heap[1] && out != heap[2]);
    let j: usize = kani::any();
    kani::assume(j < 3);
    assert!(
        keys[out] >= keys[heap[j]],
        "a row left out of the top-k orders strictly before a retained row"
    );
    kani::cover!(keys[0] > keys[4] && keys[1] > keys[3], "late rows displace early ones");
    std::mem::forget(heap);
}
