//@ property: C10
//@ crate: arrow-array
//@ target: arrow-array/src/arithmetic.rs
// Child module of arrow-array/src/arithmetic.rs: the scalar total order every comparator, sort and comparison kernel delegates to.
use super::*;

macro_rules! order_laws {
    ($name:ident, $any:expr, $t:ty) => {
        //@ tier: quick
        //@ functions: arrow_array::ArrowNativeTypeOp::{compare, is_eq, is_ne, is_lt, is_le, is_gt, is_ge}
        //@ bound: full width, symbolic triples: totality/antisymmetry (compare(a,b) = reverse(compare(b,a))), transitivity, reflexivity, and consistency of the six predicates with compare
        #[kani::proof]
        fn $name() {
            let f = $any;
            let a: $t = f();
            let b: $t = f();
            let c: $t = f();
            let ab = a.compare(b);
            assert!(ab == b.compare(a).reverse(), "antisymmetric and total");
            assert!(a.compare(a) == Ordering::Equal, "reflexive");
            if ab != Ordering::Greater && b.compare(c) != Ordering::Greater {
                assert!(a.compare(c) != Ordering::Greater, "transitive");
            }
            if ab == Ordering::Equal {
                assert!(a.compare(c) == b.compare(c), "equal elements are interchangeable");
            }
            assert!(a.is_eq(b) == (ab == Ordering::Equal), "is_eq");
            assert!(a.is_ne(b) == (ab != Ordering::Equal), "is_ne");
            assert!(a.is_lt(b) == (ab == Ordering::Less), "is_lt");
            assert!(a.is_le(b) == (ab != Ordering::Greater), "is_le");
            assert!(a.is_gt(b) == (ab == Ordering::Greater), "is_gt");
            assert!(a.is_ge(b) == (ab != Ordering::Less), "is_ge");
            assert!(<$t>::MIN_TOTAL_ORDER.compare(a) != Ordering::Greater && <$t>::MAX_TOTAL_ORDER.compare(a) != Ordering::Less, "extremes");
            kani::cover!(ab == Ordering::Less && b.compare(c) == Ordering::Less);
            kani::cover!(ab == Ordering::Equal);
        }
    };
}

order_laws!(c10_order_laws_i8, || kani::any::<i8>(), i8);
order_laws!(c10_order_laws_i64, || kani::any::<i64>(), i64);
order_laws!(c10_order_laws_u64, || kani::any::<u64>(), u64);
order_laws!(c10_order_laws_i128, || kani::any::<i128>(), i128);
order_laws!(c10_order_laws_f32, || f32::from_bits(kani::any()), f32);
order_laws!(c10_order_laws_f64, || f64::from_bits(kani::any()), f64);
order_laws!(c10_order_laws_f16, || f16::from_bits(kani::any()), f16);
order_laws!(c10_order_laws_i256, || i256::from_parts(kani::any(), kani::any()), i256);
order_laws!(c10_order_laws_day_time, || IntervalDayTime { days: kani::any(), milliseconds: kani::any() }, IntervalDayTime);
order_laws!(c10_order_laws_month_day_nano, || IntervalMonthDayNano { months: kani::any(), days: kani::any(), nanoseconds: kani::any() }, IntervalMonthDayNano);
