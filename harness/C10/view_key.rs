//@ property: C10
//@ crate: arrow-array
//@ target: arrow-array/src/array/byte_view_array.rs
// Child module of arrow-array/src/array/byte_view_array.rs.
use super::*;
use std::cmp::Ordering;

//@ tier: quick
//@ functions: arrow_array::GenericByteViewArray::inline_key_fast
//@ bound: two valid inline views (length 0..=12, padding bytes zero as the format requires), full width on the 12 data bytes: numeric order of the keys = lexicographic byte order of the values, ties broken by length; unwind 14
//@ assume: inline views are zero padded beyond their length (Arrow format requirement, enforced by validate_*_view)
#[kani::proof]
#[kani::unwind(14)]
fn c10_inline_view_key_is_lexicographic() {
    let a: [u8; 12] = kani::any();
    let b: [u8; 12] = kani::any();
    let la: u32 = kani::any();
    let lb: u32 = kani::any();
    kani::assume(la <= 12 && lb <= 12);
    let mut va = [0u8; 16];
    let mut vb = [0u8; 16];
    va[..4].copy_from_slice(&la.to_le_bytes());
    vb[..4].copy_from_slice(&lb.to_le_bytes());
    let mut i = 0;
    while i < 12 {
        if (i as u32) < la {
            va[4 + i] = a[i];
        }
        if (i as u32) < lb {
            vb[4 + i] = b[i];
        }
        i += 1;
    }
    let ka = GenericByteViewArray::<BinaryViewType>::inline_key_fast(u128::from_le_bytes(va));
    let kb = GenericByteViewArray::<BinaryViewType>::inline_key_fast(u128::from_le_bytes(vb));
    let mut exp = Ordering::Equal;
    let mut j = 0;
    while j < 12 {
        if exp == Ordering::Equal {
            let ina = (j as u32) < la;
            let inb = (j as u32) < lb;
            if ina && inb {
                if a[j] != b[j] {
                    exp = a[j].cmp(&b[j]);
                }
            } else if ina != inb {
                exp = if ina { Ordering::Greater } else { Ordering::Less };
            }
        }
        j += 1;
    }
    assert!(ka.cmp(&kb) == exp, "key order = lexicographic order of the byte strings");
    kani::cover!(la == 12 && lb == 12 && exp == Ordering::Less);
    kani::cover!(la < lb && exp == Ordering::Less && la > 0 && a[0] == b[0], "proper prefix sorts first");
    kani::cover!(la == 3 && lb == 4 && b[3] == 0 && exp == Ordering::Less, "'bar' < 'bar\\0'");
}
