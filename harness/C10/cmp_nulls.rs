//@ property: C10
//@ crate: arrow-cmp
//@ target: arrow-cmp/src/lib.rs
// Child module of arrow-cmp/src/lib.rs (the comparator builder make_comparator is assembled from).
use super::*;

fn spec(lv: bool, rv: bool, a: i8, b: i8, nulls_first: bool, descending: bool) -> Ordering {
    match (lv, rv) {
        (false, false) => Ordering::Equal,
        (false, true) => if nulls_first { Ordering::Less } else { Ordering::Greater },
        (true, false) => if nulls_first { Ordering::Greater } else { Ordering::Less },
        (true, true) => if descending { b.cmp(&a) } else { a.cmp(&b) },
    }
}

fn null_logic<const NF: bool, const DESC: bool>() {
    let lvals: [i8; 2] = kani::any();
    let rvals: [i8; 2] = kani::any();
    let lvalid: [bool; 2] = kani::any();
    let rvalid: [bool; 2] = kani::any();
    let with_l: bool = kani::any();
    let with_r: bool = kani::any();
    let l = if with_l { Some(NullBuffer::from(&lvalid[..])) } else { None };
    let r = if with_r { Some(NullBuffer::from(&rvalid[..])) } else { None };
    let c = compare_impl::<NF, DESC, _>(l, r, move |i, j| lvals[i].cmp(&rvals[j]));
    let i: usize = kani::any();
    let j: usize = kani::any();
    kani::assume(i < 2 && j < 2);
    let got = c(i, j);
    let lv = !with_l || lvalid[i];
    let rv = !with_r || rvalid[j];
    assert!(got == spec(lv, rv, lvals[i], rvals[j], NF, DESC), "null placement and direction as documented");
    std::mem::forget(c);
    kani::cover!(!lv && rv, "null vs value");
    kani::cover!(lv && rv && lvals[i] < rvals[j], "values differ");
    kani::cover!(!lv && !rv, "both null");
}

//@ tier: quick
//@ functions: arrow_cmp::compare_impl::<true, false, _>
//@ bound: 2 rows per side, symbolic i8 values and validity, null buffers present or absent on each side, every (i, j); unwind 4
#[kani::proof]
#[kani::unwind(4)]
fn c10_compare_impl_nf_asc() {
    null_logic::<true, false>();
}

//@ tier: quick
//@ functions: arrow_cmp::compare_impl::<true, true, _>
//@ bound: 2 rows per side, symbolic values/validity, every (i, j); unwind 4
#[kani::proof]
#[kani::unwind(4)]
fn c10_compare_impl_nf_desc() {
    null_logic::<true, true>();
}

//@ tier: quick
//@ functions: arrow_cmp::compare_impl::<false, false, _>
//@ bound: 2 rows per side, symbolic values/validity, every (i, j); unwind 4
#[kani::proof]
#[kani::unwind(4)]
fn c10_compare_impl_nl_asc() {
    null_logic::<false, false>();
}

//@ tier: quick
//@ functions: arrow_cmp::compare_impl::<false, true, _>
//@ bound: 2 rows per side, symbolic values/validity, every (i, j); unwind 4
#[kani::proof]
#[kani::unwind(4)]
fn c10_compare_impl_nl_desc() {
    null_logic::<false, true>();
}

//@ tier: quick
//@ functions: arrow_cmp::child_opts
//@ bound: all four SortOptions: child options never descend and place nulls so that the parent's reversal restores the requested placement
#[kani::proof]
fn c10_child_opts() {
    let o = SortOptions { descending: kani::any(), nulls_first: kani::any() };
    let c = child_opts(o);
    assert!(!c.descending, "children are compared ascending; the parent reverses");
    // a child null compares (Less if c.nulls_first else Greater); the parent reverses iff o.descending:
    let child_null_vs_value = if c.nulls_first { Ordering::Less } else { Ordering::Greater };
    let seen = if o.descending { child_null_vs_value.reverse() } else { child_null_vs_value };
    let want = if o.nulls_first { Ordering::Less } else { Ordering::Greater };
    assert!(seen == want, "after the parent's reversal nulls land where the options ask");
    kani::cover!(o.descending && o.nulls_first);
    kani::cover!(!o.descending);
}
