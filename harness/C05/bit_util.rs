//@ property: C05
//@ crate: parquet
//@ target: parquet/src/util/bit_util.rs
// Child module of parquet/src/util/bit_util.rs: value-level bit packing and VLQ codecs (writer <-> reader).
use super::*;

fn stub_format(_a: std::fmt::Arguments<'_>) -> String {
    String::new()
}

//@ tier: quick
//@ functions: parquet::util::bit_util::BitWriter::{put_value, flush}
//@ bound: ONE inductive step from an arbitrary valid writer state (bit_offset 0..64, accumulator holding only bit_offset bits), symbolic width 0..=64, full 64-bit value: emitted bytes and new state equal the 128-bit accumulator model; flush emits ceil(bit_offset/8) bytes; unwind 10
//@ assume: representation invariant of BitWriter: buffered_values >> bit_offset == 0 (re-asserted after the step, so it is inductive)
#[kani::proof]
#[kani::unwind(10)]
fn c05_bitwriter_put_value_step() {
    let off: u8 = kani::any();
    kani::assume(off < 64);
    let buffered: u64 = kani::any();
    kani::assume(off == 0 && buffered == 0 || off > 0 && (buffered >> off) == 0);
    let w: usize = kani::any();
    kani::assume(w <= 64);
    let v: u64 = kani::any();
    kani::assume(w == 64 || (v >> w) == 0);
    let mut bw = BitWriter { buffer: Vec::with_capacity(24), buffered_values: buffered, bit_offset: off };
    bw.put_value(v, w);
    let acc: u128 = (buffered as u128) | ((v as u128) << off);
    let total = off as usize + w;
    if total >= 64 {
        assert!(bw.buffer.len() == 8, "a full accumulator is emitted");
        let i: usize = kani::any();
        kani::assume(i < 8);
        assert!(bw.buffer[i] == (acc >> (8 * i)) as u8, "emitted byte i");
        assert!(bw.bit_offset as usize == total - 64 && bw.buffered_values == (acc >> 64) as u64, "carry kept");
    } else {
        assert!(bw.buffer.is_empty() && bw.bit_offset as usize == total && bw.buffered_values == acc as u64, "accumulated");
    }
    let bo = bw.bit_offset;
    assert!(bo < 64 && (bo == 0 && bw.buffered_values == 0 || bo > 0 && (bw.buffered_values >> bo) == 0), "invariant re-established");
    let before = bw.buffer.len();
    let pending = bw.buffered_values;
    bw.flush();
    assert!(bw.buffer.len() == before + (bo as usize + 7) / 8 && bw.bit_offset == 0 && bw.buffered_values == 0, "flush pads to a byte");
    let j: usize = kani::any();
    if j < 8 && before + j < bw.buffer.len() {
        assert!(bw.buffer[before + j] == (pending >> (8 * j)) as u8, "flushed byte j");
    }
    std::mem::forget(bw);
    kani::cover!(total > 64 && w == 64 && off % 8 != 0, "64-bit value split across words");
    kani::cover!(total == 64);
    kani::cover!(w == 0);
}

//@ tier: quick
//@ functions: parquet::util::bit_util::BitReader::get_value::<u64>
//@ bound: ONE step from an arbitrary reader position (byte_offset multiple of 8 below 16, bit_offset 0..64, window loaded as get_value maintains it) over a 24-byte buffer, symbolic width 0..=64: returns bits [pos, pos+w) and advances by w; unwind 10
//@ assume: representation invariant of BitReader: when bit_offset != 0, buffered_values holds the 8 bytes at byte_offset
//@ stub: alloc::fmt::format -> empty String
#[kani::proof]
#[kani::unwind(10)]
#[kani::stub(alloc::fmt::format, stub_format)]
fn c05_bitreader_get_value_step() {
    let bytes: [u8; 24] = kani::any();
    let wsel: usize = kani::any();
    kani::assume(wsel < 2);
    let byte_offset = 8 * wsel;
    let bit_offset: usize = kani::any();
    kani::assume(bit_offset < 64);
    let mut win = [0u8; 8];
    win.copy_from_slice(&bytes[byte_offset..byte_offset + 8]);
    let buffered = if bit_offset == 0 { kani::any() } else { u64::from_le_bytes(win) };
    let mut r = BitReader { buffer: Bytes::copy_from_slice(&bytes), buffered_values: buffered, byte_offset, bit_offset };
    let w: usize = kani::any();
    kani::assume(w <= 64);
    let pos = byte_offset * 8 + bit_offset;
    let v = r.get_value::<u64>(w).unwrap();
    let i: usize = kani::any();
    kani::assume(i < 64);
    if i < w {
        assert!(((v >> i) & 1 == 1) == get_bit(&bytes, pos + i), "value bit i");
    } else {
        assert!((v >> i) & 1 == 0, "upper bits zero");
    }
    assert!(r.byte_offset * 8 + r.bit_offset == pos + w, "advanced by the width");
    assert!(r.bit_offset < 64, "invariant: bit_offset below 64");
    if r.bit_offset != 0 {
        let mut nw = [0u8; 8];
        nw.copy_from_slice(&bytes[r.byte_offset..r.byte_offset + 8]);
        assert!(r.buffered_values == u64::from_le_bytes(nw), "invariant: window loaded");
    }
    std::mem::forget(r);
    kani::cover!(bit_offset + w > 64 && w == 64, "crosses into the next window");
    kani::cover!(bit_offset + w == 64);
}


//@ tier: quick
//@ timeout: 900
//@ functions: parquet::util::bit_util::BitWriter::{put_vlq_int, put_zigzag_vlq_int, put_aligned}, BitReader::{get_vlq_int, get_zigzag_vlq_int}
//@ bound: every u64 / i64 value: write then read returns the value and consumes exactly the bytes written (1..=10); unwind 12
//@ stub: alloc::fmt::format -> empty String
#[kani::proof]
#[kani::unwind(12)]
#[kani::stub(alloc::fmt::format, stub_format)]
fn c05_vlq_roundtrip() {
    let u: u64 = kani::any();
    let mut w = BitWriter { buffer: Vec::with_capacity(16), buffered_values: 0, bit_offset: 0 };
    w.put_vlq_int(u);
    let n = w.buffer.len();
    assert!(n >= 1 && n <= MAX_VLQ_BYTE_LEN, "1..=10 bytes");
    let mut arr = [0u8; 10];
    let mut k = 0;
    while k < 10 {
        if k < n {
            arr[k] = w.buffer[k];
        }
        k += 1;
    }
    std::mem::forget(w);
    let mut r = BitReader::new(Bytes::copy_from_slice(&arr[..n]));
    let got = r.get_vlq_int();
    assert!(got == Some(u as i64), "vlq round trip");
    assert!(r.get_byte_offset() == n, "reader consumed what the writer produced");
    std::mem::forget(r);
    kani::cover!(n == 10);
    kani::cover!(n == 1 && u == 127);
}

//@ tier: quick
//@ timeout: 900
//@ functions: parquet::util::bit_util::BitWriter::put_zigzag_vlq_int, BitReader::get_zigzag_vlq_int
//@ bound: every i64 value; unwind 12
//@ stub: alloc::fmt::format -> empty String
#[kani::proof]
#[kani::unwind(12)]
#[kani::stub(alloc::fmt::format, stub_format)]
fn c05_zigzag_roundtrip() {
    let v: i64 = kani::any();
    let mut w = BitWriter { buffer: Vec::with_capacity(16), buffered_values: 0, bit_offset: 0 };
    w.put_zigzag_vlq_int(v);
    let n = w.buffer.len();
    let mut arr = [0u8; 10];
    let mut k = 0;
    while k < 10 {
        if k < n {
            arr[k] = w.buffer[k];
        }
        k += 1;
    }
    std::mem::forget(w);
    let mut r = BitReader::new(Bytes::copy_from_slice(&arr[..n]));
    assert!(r.get_zigzag_vlq_int() == Some(v), "zigzag round trip");
    std::mem::forget(r);
    kani::cover!(v == i64::MIN);
    kani::cover!(n == 1 && v < 0);
}
