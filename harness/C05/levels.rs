//@ property: C05
//@ crate: parquet
//@ target: parquet/src/arrow/arrow_writer/levels.rs
// Child module of parquet/src/arrow/arrow_writer/levels.rs: definition levels and non-null value indices of a leaf.
use super::*;
use arrow_array::Int32Array;
use arrow_buffer::{BooleanBuffer, Buffer};

fn stub_format(_a: std::fmt::Arguments<'_>) -> String {
    String::new()
}

fn write_leaf_model(start: usize, len: usize, force_null_heavy: bool) {
    // validity of an 80-row leaf.  Concrete shape, symbolic data: three bytes (rows 0..=15 and 64..=71) are
    // arbitrary, the other 56 rows are all null (null-heavy instances) or all valid (per-row instances).  The number
    // of values pushed is then at most 24 and the buffers never grow by a symbolic amount.
    let fill: u8 = if force_null_heavy { 0x00 } else { 0xFF };
    let mut raw = [fill; 10];
    raw[0] = kani::any();
    raw[1] = kani::any();
    raw[8] = kani::any();
    let nulls = NullBuffer::new(BooleanBuffer::new(Buffer::from_vec(raw.to_vec()), 0, 80));
    let mut info = ArrayLevels {
        def_levels: LevelData::Materialized(vec![7i16; 3]),
        rep_levels: LevelData::Absent,
        non_null_indices: Vec::with_capacity(128),
        max_def_level: 2,
        max_rep_level: 0,
        array: Arc::new(Int32Array::from(vec![0i32; 1])),
        logical_nulls: Some(nulls),
    };
    LevelInfoBuilder::write_leaf(&mut info, start..start + len);
    let valid = |i: usize| (raw[i / 8] >> (i % 8)) & 1 == 1;
    match &info.def_levels {
        LevelData::Materialized(d) => {
            assert!(d.len() == 3 + len, "one definition level per row of the range, appended after the existing ones");
            let i: usize = kani::any();
            kani::assume(i < len);
            assert!(d[3 + i] == if valid(start + i) { 2 } else { 1 }, "definition level of row i = max for a value, max - 1 for a null");
            assert!(d[0] == 7 && d[2] == 7, "earlier levels untouched");
        }
        _ => assert!(false, "levels stay materialised"),
    }
    // every recorded value index is a valid row INSIDE the range, in increasing order, and none is missing
    let n = info.non_null_indices.len();
    let j: usize = kani::any();
    if j < n {
        let idx = info.non_null_indices[j];
        assert!(idx >= start && idx < start + len && valid(idx), "value index points at a non-null row of the range (absolute position)");
        if j + 1 < n {
            assert!(info.non_null_indices[j + 1] > idx, "indices strictly increasing");
        }
    }
    let r: usize = kani::any();
    if r >= start && r < start + len && valid(r) {
        assert!(n >= 1, "a non-null row yields at least one index");
    }
    kani::cover!(n > 5, "several values");
    kani::cover!(n >= 1 && info.non_null_indices[0] == start, "first row of the range is a value");
    std::mem::forget(info);
}

//@ tier: quick
//@ timeout: 900
//@ functions: parquet::arrow::arrow_writer::levels::LevelInfoBuilder::write_leaf (bulk-fill path for null-heavy ranges >= 64 rows), LevelData::materialize_mut
//@ bound: nullable leaf of 80 rows whose rows 0..=15 and 64..=71 have arbitrary validity and whose other rows are null (so at least half null), written for the 64-row range starting at row 5 (a leaf below a null parent / non-zero list offset): per-index definition levels and value indices (absolute positions of the non-null rows of the range); unwind 70 (Vec::resize of the 64 new levels)
//@ stub: alloc::fmt::format -> empty String
#[kani::proof]
#[kani::unwind(70)]
#[kani::stub(alloc::fmt::format, stub_format)]
fn c05_write_leaf_bulk_fill_subrange() {
    write_leaf_model(5, 64, true);
}

//@ tier: quick
//@ timeout: 900
//@ functions: parquet::arrow::arrow_writer::levels::LevelInfoBuilder::write_leaf (per-row path)
//@ bound: nullable leaf of 80 rows whose rows 0..=15 and 64..=71 have arbitrary validity and whose other rows are valid (fewer than half null), written for the 9-row range starting at row 5: per-index definition levels and value indices; unwind 12
//@ stub: alloc::fmt::format -> empty String
#[kani::proof]
#[kani::unwind(12)]
#[kani::stub(alloc::fmt::format, stub_format)]
fn c05_write_leaf_per_row_subrange() {
    write_leaf_model(5, 9, false);
}
