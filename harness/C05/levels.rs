//@ property: C05
//@ crate: parquet
//@ target: parquet/src/arrow/arrow_writer/levels.rs
// Child module of parquet/src/arrow/arrow_writer/levels.rs: definition levels and non-null value indices of a leaf.
use super::*;
use arrow_array::Int32Array;
use arrow_buffer::{BooleanBuffer, Buffer};

fn stub_format(_a: std::fmt::Arguments<'_>) -> String {
    String::new()
}

fn write_leaf_model(start: usize, len: usize, force_null_heavy: bool) {
    // validity of an 80-row leaf.  Concrete shape, symbolic data: three bytes (rows 0..=15 and 64..=71) are
    // arbitrary, the other 56 rows are all null (null-heavy instances) or all valid (per-row instances).  The number
    // of values pushed is then at most 24 and the buffers never grow by a symbolic amount.
    let fill: u8 = if force_null_heavy { 0x00 } else { 0xFF };
    let mut raw = [fill; 10];
    raw[0] = kani::any();
    raw[1] = kani::any();
    raw[8] = kani::any();
    let nulls = NullBuffer::new(BooleanBuffer::new(Buffer::from_vec(raw.to_vec()), 0, 80));
    let mut info = ArrayLevels {
        def_levels: LevelData::Materialized(vec![7i16; 3]),
        rep_levels: LevelData::Absent,
        non_null_indices: Vec::with_capacity(128),
        max_def_level: 2,
        max_rep_level: 0,
        array: Arc::new(Int32Array::from(vec![0i32; 1])),
        logical_nulls: Some(nulls),
    };
    LevelInfoBuilder::write_leaf(&mut info, start..start + len);
    let valid = |i: usize| (raw[i / 8] >> (i % 8)) & 1 == 1;
    match &info.def_levels {
        LevelData::Materialized(d) => {
            assert!(d.len() == 3 + len, "one definition level per row of the range, appended after the existing ones");
            let i: usize = kani::any();
            kani::assume(i < len);
            assert!(d[3 + i] == if valid(start + i) { 2 } else { 1 }, "definition level of row i = max for a value, max - 1 for a null");
            assert!(d[0] == 7 && d[2] == 7, "earlier levels untouched");
        }
        _ => assert!(false, "levels stay materialised"),
    }
    // every recorded value index is a valid row INSIDE the range, in increasing order, and none is missing
    let n = info.non_null_indices.len();
    let j: usize = kani::any();
    if j < n {
        let idx = info.non_null_indices[j];
        assert!(idx >= start && idx < start + len && valid(idx), "value index points at a non-null row of the range (absolute position)");
        if j + 1 < n {
            assert!(info.non_null_indices[j + 1] > idx, "indices strictly increasing");
        }
    }
    let r: usize = kani::any();
    if r >= start && r < start + len && valid(r) {
        assert!(n >= 1, "a non-null row yields at least one index");
    }
    kani::cover!(n >= 2, "several values");
    kani::cover!(n >= 1 && info.non_null_indices[0] == start, "first row of the range is a value");
    std::mem::forget(info);
}

// NOT decided: the bulk-fill path of write_leaf (null-heavy ranges of at least BULK_FILL_MIN_LEN = 64 rows).  Its
// harness (64-row range at row 5 of an 80-row leaf, 24 arbitrary validity bits) needs unwind >= 65 for
// Vec::resize of the 64 new levels; the same global bound then unrolls the two `valid_indices()` loops and the
// chunk loop inside BitIndexIterator::next 65 times each, nested: symbolic execution reached the 4th of 65 outer
// iterations in 400 s.  A per-loop bound (CBMC --unwindset) would need loop labels that contain crate hashes.
// The seeded change C05-write-leaf-bulk-fill-relative-index lives on that path and is therefore NOT caught.

//@ tier: quick
//@ timeout: 900
//@ functions: parquet::arrow::arrow_writer::levels::LevelInfoBuilder::write_leaf (per-row path)
//@ bound: nullable leaf of 80 rows whose rows 0..=15 and 64..=71 have arbitrary validity and whose other rows are valid (fewer than half null), written for the 3-row range starting at row 5: per-index definition levels and value indices (absolute positions); unwind 6
//@ stub: alloc::fmt::format -> empty String
#[kani::proof]
#[kani::unwind(6)]
#[kani::stub(alloc::fmt::format, stub_format)]
fn c05_write_leaf_per_row_subrange() {
    write_leaf_model(5, 3, false);
}
