//@ property: C05
//@ crate: parquet
//@ target: parquet/src/arrow/arrow_writer/levels.rs
// Child module of parquet/src/arrow/arrow_writer/levels.rs: definition levels and non-null value indices of a leaf.
use super::*;
use arrow_array::Int32Array;
use arrow_buffer::{BooleanBuffer, Buffer};

fn stub_format(_a: std::fmt::Arguments<'_>) -> String {
    String::new()
}

fn write_leaf_model(start: usize, len: usize, force_null_heavy: bool) {
    // validity of an 80-row leaf: arbitrary bits
    let raw: [u8; 10] = kani::any();
    let nulls = NullBuffer::new(BooleanBuffer::new(Buffer::from_vec(raw.to_vec()), 0, 80));
    if force_null_heavy {
        kani::assume(nulls.null_count() * 2 >= 80);
    } else {
        kani::assume(nulls.null_count() * 2 < 80 && nulls.null_count() > 0);
    }
    let mut info = ArrayLevels {
        def_levels: LevelData::Materialized(vec![7i16; 3]),
        rep_levels: LevelData::Absent,
        non_null_indices: Vec::with_capacity(128),
        max_def_level: 2,
        max_rep_level: 0,
        array: Arc::new(Int32Array::from(vec![0i32; 1])),
        logical_nulls: Some(nulls),
    };
    LevelInfoBuilder::write_leaf(&mut info, start..start + len);
    let valid = |i: usize| (raw[i / 8] >> (i % 8)) & 1 == 1;
    match &info.def_levels {
        LevelData::Materialized(d) => {
            assert!(d.len() == 3 + len, "one definition level per row of the range, appended after the existing ones");
            let i: usize = kani::any();
            kani::assume(i < len);
            assert!(d[3 + i] == if valid(start + i) { 2 } else { 1 }, "definition level of row i = max for a value, max - 1 for a null");
            assert!(d[0] == 7 && d[2] == 7, "earlier levels untouched");
        }
        _ => assert!(false, "levels stay materialised"),
    }
    // every recorded value index is a valid row INSIDE the range, in increasing order, and none is missing
    let n = info.non_null_indices.len();
    let j: usize = kani::any();
    if j < n {
        let idx = info.non_null_indices[j];
        assert!(idx >= start && idx < start + len && valid(idx), "value index points at a non-null row of the range (absolute position)");
        if j + 1 < n {
            assert!(info.non_null_indices[j + 1] > idx, "indices strictly increasing");
        }
    }
    let r: usize = kani::any();
    if r >= start && r < start + len && valid(r) {
        assert!(n >= 1, "a non-null row yields at least one index");
    }
    kani::cover!(n > 10, "several values");
    kani::cover!(n >= 1 && info.non_null_indices[0] == start, "first row of the range is a value");
    std::mem::forget(info);
}

//@ tier: thorough
//@ timeout: 3600
//@ functions: parquet::arrow::arrow_writer::levels::LevelInfoBuilder::write_leaf (bulk-fill path for null-heavy ranges >= 64 rows), LevelData::materialize_mut
//@ bound: nullable leaf of 80 rows with arbitrary validity that is at least half null, written for the 64-row range starting at row 5 (a leaf below a null parent / non-zero list offset): per-index definition levels and value indices (absolute positions of the non-null rows of the range); concrete range because the level buffers grow with it; unwind 70 (one loop iteration per non-null row); best effort: not expected to finish under the 12 GB cap
//@ stub: alloc::fmt::format -> empty String
#[kani::proof]
#[kani::unwind(70)]
#[kani::stub(alloc::fmt::format, stub_format)]
fn c05_write_leaf_bulk_fill_subrange() {
    write_leaf_model(5, 64, true);
}

//@ tier: thorough
//@ timeout: 3600
//@ functions: parquet::arrow::arrow_writer::levels::LevelInfoBuilder::write_leaf (per-row path)
//@ bound: nullable leaf of 80 rows, fewer than half null, written for the 9-row range starting at row 5: per-index definition levels and value indices; unwind 12
//@ stub: alloc::fmt::format -> empty String
#[kani::proof]
#[kani::unwind(12)]
#[kani::stub(alloc::fmt::format, stub_format)]
fn c05_write_leaf_per_row_subrange() {
    write_leaf_model(5, 9, false);
}
