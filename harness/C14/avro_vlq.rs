//@ property: C14
//@ crate: arrow-avro
//@ target: arrow-avro/src/reader/vlq.rs
// Child module of arrow-avro/src/reader/vlq.rs: the resumable varint decoder every Avro push decoder is built on.
use super::*;

//@ tier: quick
//@ functions: arrow_avro::reader::vlq::VLQDecoder::long
//@ bound: composition lemma from an ARBITRARY reachable decoder state (shift in {0,7,..,63}, in_progress < 2^shift), input a++b of 0..=3 bytes with symbolic split: decode(state, a++b) == decode(decode(state, a), b) in value, bytes consumed, Ok/Err and final state; the invariant is re-asserted, so by induction the result holds for any input length and any number of chunks; unwind 6
//@ assume: representation invariant of VLQDecoder (established by Default and preserved by long)
#[kani::proof]
#[kani::unwind(6)]
fn c14_vlq_composition_lemma() {
    let k: u32 = kani::any();
    kani::assume(k <= 9);
    let shift = 7 * k;
    let in_progress: u64 = kani::any();
    kani::assume(shift == 0 && in_progress == 0 || shift > 0 && shift < 64 && (in_progress >> shift) == 0);
    let bytes: [u8; 3] = kani::any();
    let n: usize = kani::any();
    kani::assume(n <= 3);
    let s: usize = kani::any();
    kani::assume(s <= n);
    let input = &bytes[..n];

    let mut d1 = VLQDecoder { in_progress, shift };
    let mut b1 = input;
    let r1 = d1.long(&mut b1);
    let used1 = n - b1.len();

    let mut d2 = VLQDecoder { in_progress, shift };
    let mut first = &input[..s];
    let r2a = d2.long(&mut first);
    let (r2, used2) = match r2a {
        Ok(None) => {
            assert!(first.is_empty(), "Ok(None) only after consuming the whole chunk");
            let mut second = &input[s..];
            let r = d2.long(&mut second);
            (r, n - second.len())
        }
        other => (other, s - first.len()),
    };
    match (&r1, &r2) {
        (Ok(a), Ok(b)) => {
            assert!(a == b, "same value");
            assert!(used1 == used2, "same bytes consumed");
            assert!(d1.in_progress == d2.in_progress && d1.shift == d2.shift, "same final state");
        }
        (Err(_), Err(_)) => {
            assert!(d1.in_progress == d2.in_progress && d1.shift == d2.shift, "same final state after error");
        }
        _ => assert!(false, "one run failed and the other did not"),
    }
    assert!(d1.shift % 7 == 0 && d1.shift <= 63, "invariant: shift");
    assert!(d1.shift == 0 && d1.in_progress == 0 || d1.shift > 0 && (d1.in_progress >> d1.shift) == 0, "invariant: in_progress");
    kani::cover!(matches!(r1, Ok(Some(_))) && s == 1 && n == 3 && used1 == 3, "value completed in the second chunk");
    kani::cover!(r1.is_err(), "overflow error");
    kani::cover!(matches!(r1, Ok(None)) && n == 3, "still in progress");
    std::mem::forget(r1);
    std::mem::forget(r2);
}

//@ tier: quick
//@ timeout: 600
//@ functions: arrow_avro::reader::vlq::{VLQDecoder::long, read_varint, skip_varint}
//@ bound: whole-input form: every byte string of length 0..=11, every split point, from the initial state: one call == two calls; complete values agree with the one-shot slice reader read_varint (zig-zag decoded) and skip_varint; unwind 13
#[kani::proof]
#[kani::unwind(13)]
fn c14_vlq_chunking_whole_input() {
    const N: usize = 11;
    let bytes: [u8; N] = kani::any();
    let n: usize = kani::any();
    kani::assume(n <= N);
    let k: usize = kani::any();
    kani::assume(k <= n);
    let input = &bytes[..n];
    let mut d1 = VLQDecoder::default();
    let mut b1 = input;
    let r1 = d1.long(&mut b1);
    let used1 = n - b1.len();
    let mut d2 = VLQDecoder::default();
    let mut first = &input[..k];
    let r2a = d2.long(&mut first);
    let (r2, used2) = match r2a {
        Ok(None) => {
            let mut second = &input[k..];
            let r = d2.long(&mut second);
            (r, n - second.len())
        }
        other => (other, k - first.len()),
    };
    match (&r1, &r2) {
        (Ok(a), Ok(b)) => {
            assert!(a == b && used1 == used2, "chunking does not change value or length");
        }
        (Err(_), Err(_)) => {}
        _ => assert!(false, "one run failed and the other did not"),
    }
    if let Ok(Some(v)) = r1 {
        match read_varint(input) {
            Some((u, len)) => {
                assert!(len == used1, "same length as the one-shot reader");
                assert!(((u >> 1) as i64 ^ -((u & 1) as i64)) == v, "same value as the one-shot reader");
                assert!(skip_varint(input) == Some(len));
            }
            None => assert!(false, "push decoder accepted what the one-shot reader rejects"),
        }
    }
    kani::cover!(matches!(r1, Ok(Some(_))) && used1 == 10 && k == 4, "ten-byte value split in the middle");
    kani::cover!(r1.is_err());
    std::mem::forget(r1);
    std::mem::forget(r2);
}
