//@ property: C14
//@ crate: arrow-ipc
//@ target: arrow-ipc/src/reader/stream.rs
// Child module of arrow-ipc/src/reader/stream.rs: the framing (Header) state of the IPC StreamDecoder.
use super::*;

fn stub_format(_a: std::fmt::Arguments<'_>) -> String {
    String::new()
}

// observable summary of the decoder state once the fed bytes are consumed
fn summary(d: &StreamDecoder) -> (u8, u32, u8, bool, [u8; 4]) {
    match &d.state {
        DecoderState::Header { buf, read, continuation } => {
            // only the first `read` bytes of the scratch array are meaningful
            let mut b = [0u8; 4];
            let mut i = 0;
            while i < 4 {
                if (i as u8) < *read {
                    b[i] = buf[i];
                }
                i += 1;
            }
            (0, 0, *read, *continuation, b)
        }
        DecoderState::Message { size } => (1, *size, 0, false, [0; 4]),
        DecoderState::Body { .. } => (2, 0, 0, false, [0; 4]),
        DecoderState::Finished => (3, 0, 0, false, [0; 4]),
    }
}

fn feed(d: &mut StreamDecoder, bytes: &[u8]) -> bool {
    let mut b = Buffer::from_vec(bytes.to_vec());
    let r = d.decode(&mut b);
    let ok = matches!(r, Ok(None));
    std::mem::forget(r);
    ok
}

//@ tier: quick
//@ timeout: 900
//@ functions: arrow_ipc::reader::StreamDecoder::{decode (Header state), finish}
//@ bound: every prefix (0..=8 bytes) of every 8-byte stream head (continuation marker or legacy length word, then the metadata length), fed in one chunk versus two chunks at every split point (empty chunks included): same resulting decoder state (awaiting-header with the same partial word / continuation flag, awaiting-message with the same size, or finished), same outcome of finish(); unwind 10
//@ assume: the fed bytes end with the length word, so the decoder stops before the flatbuffer message (framing level only)
//@ stub: alloc::fmt::format -> empty String
#[kani::proof]
#[kani::unwind(10)]
#[kani::stub(alloc::fmt::format, stub_format)]
fn c14_ipc_header_chunking() {
    let bytes: [u8; 8] = kani::any();
    let n: usize = kani::any();
    let k: usize = kani::any();
    kani::assume(n <= 8 && k <= n);
    // keep the decoder inside the framing level: a legacy length word (no continuation marker) must be the
    // last thing fed, i.e. at most 4 bytes unless the stream starts with the continuation marker
    let starts_with_marker = bytes[0] == 0xFF && bytes[1] == 0xFF && bytes[2] == 0xFF && bytes[3] == 0xFF;
    kani::assume(n <= 4 || starts_with_marker);
    let mut one = StreamDecoder::new();
    let ok1 = feed(&mut one, &bytes[..n]);
    let mut two = StreamDecoder::new();
    let ok2a = feed(&mut two, &bytes[..k]);
    let ok2b = feed(&mut two, &bytes[k..n]);
    assert!(ok1 && ok2a && ok2b, "framing bytes never produce a batch or an error");
    assert!(summary(&one) == summary(&two), "the decoder state does not depend on the chunking");
    let f1 = one.finish().is_ok();
    let f2 = two.finish().is_ok();
    assert!(f1 == f2, "finish() agrees");
    kani::cover!(n == 8 && k == 2 && starts_with_marker && summary(&one).0 == 1, "marker split across chunks, message size read");
    kani::cover!(n == 8 && starts_with_marker && summary(&one).0 == 3, "end-of-stream marker");
    kani::cover!(n == 3 && k == 1, "partial word");
    kani::cover!(n == 4 && !starts_with_marker && summary(&one).0 == 1, "legacy length prefix");
    std::mem::forget(one);
    std::mem::forget(two);
}
