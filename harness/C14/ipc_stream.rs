//@ property: C14
//@ crate: arrow-ipc
//@ target: arrow-ipc/src/reader/stream.rs
// Child module of arrow-ipc/src/reader/stream.rs: the framing (Header) state of the IPC StreamDecoder.
use super::*;

fn stub_format(_a: std::fmt::Arguments<'_>) -> String {
    String::new()
}

// HashMap's RandomState::new() reads the OS random source (a foreign call Kani cannot model); the dictionaries map
// is never touched at the framing level, so any fixed keys do.
fn fixed_random_state() -> std::hash::RandomState {
    unsafe { std::mem::transmute::<[u64; 2], std::hash::RandomState>([0, 0]) }
}

// Cuts: the harness stays at the framing level (the assumption below stops the decoder before the flatbuffer
// message), so the message / body arms of `decode` are dead code here.  Their heavy callees are replaced by
// stubs that end the path, which keeps them out of the SAT instance (the Message and Body states are outside
// this claim).
fn cut_message(_b: Buffer) -> Result<MessageBuffer, ArrowError> {
    kani::assume(false);
    Err(ArrowError::IpcError(String::new()))
}

fn cut_extend<T: arrow_buffer::ArrowNativeType>(
    _b: &mut MutableBuffer,
    _items: &[T],
) -> Result<(), arrow_buffer::MutableBufferError> {
    kani::assume(false);
    Ok(())
}

fn cut_schema(_fb: crate::Schema) -> Result<arrow_schema::Schema, ArrowError> {
    kani::assume(false);
    Err(ArrowError::IpcError(String::new()))
}

fn cut_dictionary(
    _buf: &Buffer,
    _batch: crate::DictionaryBatch,
    _schema: &arrow_schema::Schema,
    _d: &mut HashMap<i64, ArrayRef>,
    _m: &crate::MetadataVersion,
    _ra: bool,
    _sv: UnsafeFlag,
) -> Result<(), ArrowError> {
    kani::assume(false);
    Ok(())
}

fn cut_batch<'a>(
    _buf: &'a Buffer,
    _batch: crate::RecordBatch<'a>,
    _schema: SchemaRef,
    _d: &'a HashMap<i64, ArrayRef>,
    _m: &'a crate::MetadataVersion,
) -> Result<RecordBatchDecoder<'a>, ArrowError>
where
    'a: 'a, // makes the lifetime early-bound, matching `impl<'a> RecordBatchDecoder<'a>`
{
    kani::assume(false);
    Err(ArrowError::IpcError(String::new()))
}

// observable summary of the decoder state once the fed bytes are consumed
fn summary(d: &StreamDecoder) -> (u8, u32, u8, bool, [u8; 4]) {
    match &d.state {
        DecoderState::Header { buf, read, continuation } => {
            // only the first `read` bytes of the scratch array are meaningful
            let mut b = [0u8; 4];
            let mut i = 0;
            while i < 4 {
                if (i as u8) < *read {
                    b[i] = buf[i];
                }
                i += 1;
            }
            (0, 0, *read, *continuation, b)
        }
        DecoderState::Message { size } => (1, *size, 0, false, [0; 4]),
        DecoderState::Body { .. } => (2, 0, 0, false, [0; 4]),
        DecoderState::Finished => (3, 0, 0, false, [0; 4]),
    }
}

// the chunk is a zero-copy slice of one 8-byte allocation: no allocation of symbolic size
fn feed(d: &mut StreamDecoder, all: &Buffer, from: usize, to: usize) -> bool {
    let mut b = all.slice_with_length(from, to - from);
    let r = d.decode(&mut b);
    let ok = matches!(r, Ok(None));
    std::mem::forget(r);
    ok
}

// One stream head, one chunking: feed bytes[..n] whole and as bytes[..k] + bytes[k..n]; both decoders must end in the
// same state.  `n` and `k` are compile-time constants in every instance below: with concrete chunk lengths the
// decoder's `while !buffer.is_empty()` loop has a concrete trip count and the (dead) message / body arms are
// never entered symbolically.  (A first version with symbolic n, k timed out inside drop glue of Schema in the
// dead arms.)
fn split_case(bytes: &[u8; 8], all: &Buffer, n: usize, k: usize) {
    let mut one = StreamDecoder::new();
    let ok1 = feed(&mut one, all, 0, n);
    let mut two = StreamDecoder::new();
    let ok2a = feed(&mut two, all, 0, k);
    let ok2b = feed(&mut two, all, k, n);
    assert!(ok1 && ok2a && ok2b, "framing bytes never produce a batch or an error");
    assert!(summary(&one) == summary(&two), "the decoder state does not depend on the chunking");
    let f1 = one.finish();
    let f2 = two.finish();
    assert!(f1.is_ok() == f2.is_ok(), "finish() agrees");
    if n == 8 {
        let size = u32::from_le_bytes([bytes[4], bytes[5], bytes[6], bytes[7]]);
        let s = summary(&one);
        assert!(if size == 0 { s.0 == 3 } else { s.0 == 1 && s.1 == size }, "length word after the marker is decoded");
    }
    std::mem::forget(f1);
    std::mem::forget(f2);
    std::mem::forget(one);
    std::mem::forget(two);
}

macro_rules! ipc_chunk_instance {
    ($name:ident, $marker:expr, $n:expr, [$($k:expr),*]) => {
        #[kani::proof]
        #[kani::unwind(6)]
        #[kani::stub(alloc::fmt::format, stub_format)]
        #[kani::stub(std::hash::RandomState::new, fixed_random_state)]
        #[kani::stub(crate::convert::MessageBuffer::try_new, cut_message)]
        #[kani::stub(crate::convert::try_fb_to_schema, cut_schema)]
        #[kani::stub(arrow_buffer::MutableBuffer::try_extend_from_slice, cut_extend)]
        #[kani::stub(crate::reader::read_dictionary_impl, cut_dictionary)]
        #[kani::stub(crate::reader::RecordBatchDecoder::try_new, cut_batch)]
        fn $name() {
            let mut bytes: [u8; 8] = kani::any();
            if $marker {
                bytes[0] = 0xFF;
                bytes[1] = 0xFF;
                bytes[2] = 0xFF;
                bytes[3] = 0xFF;
            }
            let all = Buffer::from_vec(bytes.to_vec());
            $( split_case(&bytes, &all, $n, $k); )*
            kani::cover!(bytes[4] != 0 || $n < 5, "a non-empty message follows");
            std::mem::forget(all);
        }
    };
}

//@ tier: quick
//@ timeout: 600
//@ functions: arrow_ipc::reader::StreamDecoder::{decode (Header state), finish}
//@ bound: every first word (4 arbitrary bytes: continuation marker, legacy length, or zero), every prefix length n = 0..=4 of it, fed whole versus split at every k = 0..=n (empty chunks included): same decoder state (partial word and continuation flag / message size / finished) and same finish() outcome; unwind 6
//@ stub: alloc::fmt::format -> empty String; std::hash::RandomState::new -> fixed keys (OS randomness is a foreign call; the dictionaries map is untouched here); MessageBuffer::try_new, try_fb_to_schema, read_dictionary_impl, RecordBatchDecoder::try_new, MutableBuffer::try_extend_from_slice -> assume(false) (message / body states are outside the claim)
ipc_chunk_instance!(c14_ipc_first_word_chunking_n0_n1_n2, false, 2, [0, 1, 2]);
//@ tier: quick
//@ timeout: 600
//@ functions: arrow_ipc::reader::StreamDecoder::{decode (Header state), finish}
//@ bound: as c14_ipc_first_word_chunking_n0_n1_n2 for n = 3
//@ stub: as c14_ipc_first_word_chunking_n0_n1_n2
ipc_chunk_instance!(c14_ipc_first_word_chunking_n3, false, 3, [0, 1, 2, 3]);
//@ tier: quick
//@ timeout: 600
//@ functions: arrow_ipc::reader::StreamDecoder::{decode (Header state), finish}
//@ bound: as c14_ipc_first_word_chunking_n0_n1_n2 for n = 4 (the whole first word)
//@ stub: as c14_ipc_first_word_chunking_n0_n1_n2
ipc_chunk_instance!(c14_ipc_first_word_chunking_n4, false, 4, [0, 1, 2, 3, 4]);
//@ tier: quick
//@ timeout: 600
//@ functions: arrow_ipc::reader::StreamDecoder::{decode (Header state), finish}
//@ bound: continuation marker FF FF FF FF followed by 2 arbitrary bytes of the length word (n = 6), split at every k = 0..=6: same decoder state, same finish() outcome; unwind 6
//@ stub: as c14_ipc_first_word_chunking_n0_n1_n2
ipc_chunk_instance!(c14_ipc_marker_then_partial_length_n6, true, 6, [0, 1, 2, 3, 4, 5, 6]);
//@ tier: quick
//@ timeout: 600
//@ functions: arrow_ipc::reader::StreamDecoder::{decode (Header state), finish}
//@ bound: continuation marker FF FF FF FF followed by an arbitrary 4-byte length word (n = 8), split at every k = 0..=8 (the marker itself split at 1, 2, 3; the length split at 5, 6, 7): same decoder state, which is `finished` for length 0 and `awaiting message of that size` otherwise, same finish() outcome; unwind 6
//@ stub: as c14_ipc_first_word_chunking_n0_n1_n2
ipc_chunk_instance!(c14_ipc_marker_and_length_n8, true, 8, [0, 1, 2, 3, 4, 5, 6, 7, 8]);
