//@ property: C11
//@ crate: arrow-row
//@ target: arrow-row/src/fixed.rs
// Child module of arrow-row/src/fixed.rs.
use super::*;
use std::cmp::Ordering;

fn lex<const N: usize>(a: [u8; N], b: [u8; N]) -> Ordering {
    let mut i = 0;
    while i < N {
        if a[i] != b[i] {
            return a[i].cmp(&b[i]);
        }
        i += 1;
    }
    Ordering::Equal
}

macro_rules! int_key {
    ($name:ident, $t:ty, $n:expr, $unwind:expr) => {
        //@ tier: quick
        //@ functions: arrow_row::fixed::FixedLengthEncoding::{encode, decode}
        //@ bound: full width: byte-wise order of encode(a), encode(b) == a.cmp(b); decode(encode(a)) == a
        #[kani::proof]
        #[kani::unwind($unwind)]
        fn $name() {
            let a: $t = kani::any();
            let b: $t = kani::any();
            let (ea, eb): ([u8; $n], [u8; $n]) = (a.encode(), b.encode());
            assert!(lex(ea, eb) == a.cmp(&b), "key order = value order");
            assert!(<$t>::decode(ea) == a, "decode inverts encode");
            kani::cover!(a < 0 as $t && b > 0 as $t, "signs differ");
            kani::cover!(lex(ea, eb) == Ordering::Greater);
        }
    };
}
int_key!(c11_fixed_key_i8, i8, 1, 3);
int_key!(c11_fixed_key_i16, i16, 2, 4);
int_key!(c11_fixed_key_i32, i32, 4, 6);
int_key!(c11_fixed_key_i64, i64, 8, 10);
int_key!(c11_fixed_key_i128, i128, 16, 18);

macro_rules! uint_key {
    ($name:ident, $t:ty, $n:expr, $unwind:expr) => {
        //@ tier: quick
        //@ functions: arrow_row::fixed::FixedLengthEncoding::{encode, decode}
        //@ bound: full width: byte-wise order of encodings == cmp; decode inverts encode
        #[kani::proof]
        #[kani::unwind($unwind)]
        fn $name() {
            let a: $t = kani::any();
            let b: $t = kani::any();
            let (ea, eb): ([u8; $n], [u8; $n]) = (a.encode(), b.encode());
            assert!(lex(ea, eb) == a.cmp(&b), "key order = value order");
            assert!(<$t>::decode(ea) == a, "decode inverts encode");
            kani::cover!(lex(ea, eb) == Ordering::Greater);
            kani::cover!(a == b);
        }
    };
}
uint_key!(c11_fixed_key_u8, u8, 1, 3);
uint_key!(c11_fixed_key_u16, u16, 2, 4);
uint_key!(c11_fixed_key_u32, u32, 4, 6);
uint_key!(c11_fixed_key_u64, u64, 8, 10);

//@ tier: quick
//@ functions: arrow_row::fixed::FixedLengthEncoding for i256
//@ bound: full width (2 x 256 bit)
#[kani::proof]
#[kani::unwind(34)]
fn c11_fixed_key_i256() {
    let a = i256::from_parts(kani::any(), kani::any());
    let b = i256::from_parts(kani::any(), kani::any());
    let (ea, eb) = (a.encode(), b.encode());
    // reference order: signed high half, then unsigned low half
    let (al, ah) = a.to_parts();
    let (bl, bh) = b.to_parts();
    let exp = ah.cmp(&bh).then(al.cmp(&bl));
    assert!(lex(ea, eb) == exp, "key order = value order");
    assert!(i256::decode(ea) == a, "decode inverts encode");
    kani::cover!(ah == bh && al != bl);
    kani::cover!(ah < 0 && bh >= 0);
}

//@ tier: quick
//@ functions: arrow_row::fixed::FixedLengthEncoding for f16, f32, f64, bool
//@ bound: full width bit patterns; order oracle = total_cmp (IEEE-754 totalOrder)
#[kani::proof]
#[kani::unwind(10)]
fn c11_fixed_key_floats_bool() {
    let a = f64::from_bits(kani::any());
    let b = f64::from_bits(kani::any());
    assert!(lex(a.encode(), b.encode()) == a.total_cmp(&b), "f64 key = totalOrder");
    assert!(f64::decode(a.encode()).to_bits() == a.to_bits(), "f64 round trip bitwise");
    let c = f32::from_bits(kani::any());
    let d = f32::from_bits(kani::any());
    assert!(lex(c.encode(), d.encode()) == c.total_cmp(&d), "f32 key = totalOrder");
    assert!(f32::decode(c.encode()).to_bits() == c.to_bits());
    let e = f16::from_bits(kani::any());
    let f = f16::from_bits(kani::any());
    assert!(lex(e.encode(), f.encode()) == e.total_cmp(&f), "f16 key = totalOrder");
    assert!(f16::decode(e.encode()).to_bits() == e.to_bits());
    let p: bool = kani::any();
    let q: bool = kani::any();
    assert!(lex(p.encode(), q.encode()) == p.cmp(&q) && bool::decode(p.encode()) == p);
    kani::cover!(a.is_nan() && b.is_infinite());
    kani::cover!(a == 0.0 && b == 0.0 && a.to_bits() != b.to_bits(), "signed zeros distinct");
}

//@ tier: quick
//@ functions: arrow_row::fixed::FixedLengthEncoding for IntervalDayTime, IntervalMonthDayNano
//@ bound: full width; order oracle = field-wise lexicographic order (days, ms) / (months, days, ns) = the derived Ord of the interval structs
#[kani::proof]
#[kani::unwind(18)]
fn c11_fixed_key_intervals() {
    let a = IntervalDayTime { days: kani::any(), milliseconds: kani::any() };
    let b = IntervalDayTime { days: kani::any(), milliseconds: kani::any() };
    let exp = a.days.cmp(&b.days).then(a.milliseconds.cmp(&b.milliseconds));
    assert!(lex(a.encode(), b.encode()) == exp, "day-time key order");
    assert!(a.cmp(&b) == exp, "Ord of IntervalDayTime is field-wise");
    let r = IntervalDayTime::decode(a.encode());
    assert!(r.days == a.days && r.milliseconds == a.milliseconds);
    let c = IntervalMonthDayNano { months: kani::any(), days: kani::any(), nanoseconds: kani::any() };
    let d = IntervalMonthDayNano { months: kani::any(), days: kani::any(), nanoseconds: kani::any() };
    let exp = c.months.cmp(&d.months).then(c.days.cmp(&d.days)).then(c.nanoseconds.cmp(&d.nanoseconds));
    assert!(lex(c.encode(), d.encode()) == exp, "month-day-nano key order");
    assert!(c.cmp(&d) == exp);
    let r = IntervalMonthDayNano::decode(c.encode());
    assert!(r.months == c.months && r.days == c.days && r.nanoseconds == c.nanoseconds);
    kani::cover!(a.days == b.days && a.milliseconds < b.milliseconds);
    kani::cover!(c.months == d.months && c.days == d.days && c.nanoseconds > d.nanoseconds);
}

//@ tier: quick
//@ functions: arrow_row::fixed::{encode::<i32>, encode_not_null::<i32>}, null_sentinel
//@ bound: 2 rows of i32 with symbolic validity, all four SortOptions, row buffer pre-zeroed as RowConverter allocates it: row order = (null placement, then value order, reversed when descending); offsets advance by ENCODED_LEN; unwind 12
#[kani::proof]
#[kani::unwind(12)]
fn c11_fixed_encode_column_i32() {
    let v: [i32; 2] = kani::any();
    let valid: [bool; 2] = kani::any();
    let opts = SortOptions { descending: kani::any(), nulls_first: kani::any() };
    let nulls = NullBuffer::from(&valid[..]);
    let mut data = [0u8; 10];
    let mut offsets = [0usize, 0, 5];
    encode(&mut data, &mut offsets, &v, &nulls, opts);
    assert!(offsets[0] == 0 && offsets[1] == 5 && offsets[2] == 10, "offsets advanced by ENCODED_LEN");
    let r0: [u8; 5] = data[0..5].try_into().unwrap();
    let r1: [u8; 5] = data[5..10].try_into().unwrap();
    let exp = match (valid[0], valid[1]) {
        (false, false) => Ordering::Equal,
        (false, true) => if opts.nulls_first { Ordering::Less } else { Ordering::Greater },
        (true, false) => if opts.nulls_first { Ordering::Greater } else { Ordering::Less },
        (true, true) => if opts.descending { v[1].cmp(&v[0]) } else { v[0].cmp(&v[1]) },
    };
    assert!(lex(r0, r1) == exp, "row order");
    // non-null fast path writes the same bytes as the nullable path on an all-valid column
    if valid[0] && valid[1] {
        let mut d2 = [0u8; 10];
        let mut o2 = [0usize, 0, 5];
        encode_not_null(&mut d2, &mut o2, &v, opts);
        let q: usize = kani::any();
        kani::assume(q < 10);
        assert!(d2[q] == data[q] && o2[1] == 5 && o2[2] == 10, "encode_not_null agrees");
    }
    std::mem::forget(nulls);
    kani::cover!(valid[0] && !valid[1] && opts.descending && !opts.nulls_first);
    kani::cover!(valid[0] && valid[1] && opts.descending && v[0] < v[1]);
}
