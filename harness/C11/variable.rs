//@ property: C11
//@ crate: arrow-row
//@ target: arrow-row/src/variable.rs
// Child module of arrow-row/src/variable.rs.
use super::*;
use std::cmp::Ordering;

fn lex(a: &[u8], na: usize, b: &[u8], nb: usize, cap: usize) -> Ordering {
    let mut i = 0;
    while i < cap {
        if i >= na || i >= nb {
            break;
        }
        if a[i] != b[i] {
            return a[i].cmp(&b[i]);
        }
        i += 1;
    }
    na.cmp(&nb)
}

fn order_preserving<const MAXLEN: usize, const OUT: usize>(min_len: usize) {
    let a: [u8; MAXLEN] = kani::any();
    let b: [u8; MAXLEN] = kani::any();
    let la: usize = kani::any();
    let lb: usize = kani::any();
    kani::assume(la <= MAXLEN && lb <= MAXLEN && la >= min_len && lb >= min_len);
    let an: bool = kani::any();
    let bn: bool = kani::any();
    let opts = SortOptions { descending: kani::any(), nulls_first: kani::any() };
    let av = if an { None } else { Some(&a[..la]) };
    let bv = if bn { None } else { Some(&b[..lb]) };
    let mut oa = [0u8; OUT];
    let mut ob = [0u8; OUT];
    let na = encode_one(&mut oa, av, opts);
    let nb = encode_one(&mut ob, bv, opts);
    assert!(na == padded_length(av.map(|x| x.len())), "encoded length = padded_length");
    let got = lex(&oa, na, &ob, nb, OUT);
    let exp = match (av, bv) {
        (None, None) => Ordering::Equal,
        (None, Some(_)) => if opts.nulls_first { Ordering::Less } else { Ordering::Greater },
        (Some(_), None) => if opts.nulls_first { Ordering::Greater } else { Ordering::Less },
        (Some(x), Some(y)) => {
            let o = lex(x, la, y, lb, MAXLEN);
            if opts.descending { o.reverse() } else { o }
        }
    };
    assert!(got == exp, "byte order of encodings = order of values (also: equal iff equal)");
    // prefix freedom: an encoding is never a proper prefix of a different encoding
    if na < nb {
        let mut is_prefix = true;
        let mut i = 0;
        while i < OUT {
            if i < na && oa[i] != ob[i] {
                is_prefix = false;
            }
            i += 1;
        }
        assert!(!is_prefix, "no encoding is a proper prefix of another");
    }
    kani::cover!(!an && !bn && la == MAXLEN && lb == MAXLEN - 1 && got == Ordering::Greater, "longest lengths");
    kani::cover!(!an && bn, "null vs value");
    kani::cover!(!an && !bn && la == 0 && lb > 0, "empty vs non-empty");
}

//@ tier: quick
//@ functions: arrow_row::variable::{encode_one, encode_blocks, encode_null, encode_empty, padded_length, non_null_padded_length}
//@ bound: two byte strings of length 0..=4 (incl. None and empty), all four SortOptions: order, equality, encoded length, prefix freedom; unwind 12
#[kani::proof]
#[kani::unwind(12)]
fn c11_variable_order_len4() {
    order_preserving::<4, 10>(0);
}

//@ tier: thorough
//@ timeout: 1500
//@ functions: arrow_row::variable::{encode_one, encode_blocks}
//@ bound: two byte strings of length 0..=9 (crosses the 8-byte mini-block edge), all SortOptions; unwind 21
#[kani::proof]
#[kani::unwind(21)]
fn c11_variable_order_len9() {
    order_preserving::<9, 19>(0);
}

//@ tier: quick
//@ functions: arrow_row::variable::{encode_one, decode_blocks, decoded_len}
//@ bound: one byte string of length 0..=9 or None, both `descending` values: decode_blocks returns the encoded length and reproduces the value bytes; unwind 21
#[kani::proof]
#[kani::unwind(21)]
fn c11_variable_roundtrip_len9() {
    let a: [u8; 9] = kani::any();
    let la: usize = kani::any();
    kani::assume(la <= 9);
    let opts = SortOptions { descending: kani::any(), nulls_first: kani::any() };
    let mut out = [0u8; 19];
    let n = encode_one(&mut out, Some(&a[..la]), opts);
    let mut got = [0u8; 9];
    let mut glen = 0usize;
    let consumed = decode_blocks(&out[..n], opts, |blk| {
        let mut i = 0;
        while i < 9 {
            if i < blk.len() && glen + i < 9 {
                got[glen + i] = if opts.descending { !blk[i] } else { blk[i] };
            }
            i += 1;
        }
        glen += blk.len();
    });
    assert!(consumed == n, "decode consumes exactly the encoding");
    assert!(glen == la && decoded_len(&out[..n], opts) == la, "decoded length");
    let k: usize = kani::any();
    if k < la {
        assert!(got[k] == a[k], "decoded byte k");
    }
    kani::cover!(la == 9 && opts.descending);
    kani::cover!(la == 8);
    kani::cover!(la == 0);
}
