//@ property: C04
//@ crate: arrow-ipc
//@ target: arrow-ipc/src/writer.rs
//@ inject: arrow-data/src/data.rs :: #[cfg(kani)] pub fn verif_kani_array_data(data_type: DataType, len: usize, offset: usize, buffers: Vec<Buffer>, child_data: Vec<ArrayData>, nulls: Option<NullBuffer>) -> ArrayData { ArrayData { data_type, len, offset, buffers, child_data, nulls } }
// Child module of arrow-ipc/src/writer.rs: the per-type slice re-basing and the framing arithmetic of the IPC writer.
// ArrayData's fields are private to arrow-data, so one cfg(kani)-only constructor line is appended to the overlay
// copy of arrow-data/src/data.rs (never to /repo).
use super::*;
use arrow_buffer::Buffer;
use arrow_schema::DataType;

fn stub_format(_a: std::fmt::Arguments<'_>) -> String {
    String::new()
}

//@ tier: quick
//@ functions: arrow_ipc::writer::{pad_to_alignment, MetadataLayout::new}
//@ bound: alignment in {8,16,32,64}, both legacy-format values, lengths up to 2^62: padded lengths are multiples of the alignment, 0 <= padding < alignment <= PADDING.len(), no overflow
#[kani::proof]
fn c04_padding_arithmetic() {
    let sel: u8 = kani::any();
    kani::assume(sel < 4);
    let alignment: u8 = 8u8 << sel;
    let len: usize = kani::any();
    kani::assume(len < (1usize << 62));
    let pad = pad_to_alignment(alignment, len);
    assert!(pad < alignment as usize && pad <= PADDING.len(), "padding below the alignment and within the zero block");
    assert!((len + pad) & (alignment as usize - 1) == 0, "padded body length is aligned");
    let legacy: bool = kani::any();
    let opts = IpcWriteOptions {
        alignment,
        write_legacy_ipc_format: legacy,
        metadata_version: if legacy { crate::MetadataVersion::V4 } else { crate::MetadataVersion::V5 },
        batch_compression_type: None,
        batch_compression_level: None,
        dictionary_handling: DictionaryHandling::default(),
    };
    let l = MetadataLayout::new(len, &opts);
    let prefix = if legacy { 4 } else { 8 };
    assert!(l.padded_header_len & (alignment as usize - 1) == 0, "prefix + metadata is aligned");
    assert!(l.padded_header_len == l.padded_metadata_len + prefix, "header = prefix + padded metadata");
    assert!(l.padded_metadata_len == len + l.metadata_padding && l.metadata_padding < alignment as usize, "padding below the alignment");
    assert!(l.metadata_padding <= PADDING.len());
    kani::cover!(pad == 63);
    kani::cover!(legacy && l.metadata_padding == 0 && alignment == 64);
    std::mem::forget(opts);
}

//@ tier: quick
//@ timeout: 900
//@ functions: arrow_ipc::writer::reencode_offsets::<i32>
//@ bound: Binary ArrayData over 5 arbitrary valid i32 offsets into an 8-byte value buffer, symbolic array offset and length (len >= 1, offset + len <= 4): new offsets start at 0, have len+1 entries, entry i = old[offset+i] - old[offset]; reported value range = [old[offset], old[offset+len]); unwind 7
//@ assume: the input is a valid Binary layout (offsets non-negative, monotone, within the values buffer) - the writer only receives arrays that passed validation (C09)
//@ stub: alloc::fmt::format -> empty String
#[kani::proof]
#[kani::unwind(7)]
#[kani::stub(alloc::fmt::format, stub_format)]
fn c04_reencode_offsets_rebases() {
    let offs: [i32; 5] = kani::any();
    kani::assume(offs[0] >= 0 && offs[0] <= offs[1] && offs[1] <= offs[2] && offs[2] <= offs[3] && offs[3] <= offs[4] && offs[4] <= 8);
    let off: usize = kani::any();
    let len: usize = kani::any();
    kani::assume(len >= 1 && off <= 4 && len <= 4 - off);
    let ob = Buffer::from_vec(offs.to_vec());
    let data = arrow_data::verif_kani_array_data(DataType::Binary, len, off, vec![ob.clone(), Buffer::from_vec(vec![0u8; 8])], vec![], None);
    let (new_offsets, start, total) = reencode_offsets::<i32>(&ob, &data);
    let no: &[i32] = new_offsets.typed_data::<i32>();
    assert!(no.len() == len + 1, "N+1 offsets");
    assert!(no[0] == 0, "re-based to zero");
    assert!(start == offs[off] as usize && total == (offs[off + len] - offs[off]) as usize, "value range of the slice");
    let i: usize = kani::any();
    kani::assume(i <= len);
    assert!(no[i] == offs[off + i] - offs[off], "offset i re-based");
    kani::cover!(off > 0 && offs[off] > 0, "re-encoding path");
    kani::cover!(off > 0 && offs[off] == 0, "zero-copy slice path");
    std::mem::forget(data);
    std::mem::forget(new_offsets);
    std::mem::forget(ob);
}

//@ tier: quick
//@ timeout: 900
//@ functions: arrow_ipc::writer::get_byte_array_buffers::<i32>, reencode_offsets
//@ bound: same Binary inputs with symbolic value bytes, incl. the empty array: value i read through the returned (offsets, values) equals value offset+i of the input byte for byte; an empty array yields the single 0 offset the format requires; unwind 10
//@ assume: valid Binary layout
//@ stub: alloc::fmt::format -> empty String
#[kani::proof]
#[kani::unwind(10)]
#[kani::stub(alloc::fmt::format, stub_format)]
fn c04_byte_array_buffers_preserve_values() {
    let offs: [i32; 4] = kani::any();
    kani::assume(offs[0] >= 0 && offs[0] <= offs[1] && offs[1] <= offs[2] && offs[2] <= offs[3] && offs[3] <= 6);
    let vals: [u8; 6] = kani::any();
    let off: usize = kani::any();
    let len: usize = kani::any();
    kani::assume(off <= 3 && len <= 3 - off);
    let data = arrow_data::verif_kani_array_data(DataType::Binary, len, off, vec![Buffer::from_vec(offs.to_vec()), Buffer::from_vec(vals.to_vec())], vec![], None);
    let [o, v] = get_byte_array_buffers::<i32>(&data);
    let no: &[i32] = o.typed_data::<i32>();
    assert!(no.len() == len + 1 && no[0] == 0, "N+1 offsets starting at zero (also for the empty array)");
    let i: usize = kani::any();
    if i < len {
        let (s, e) = (no[i] as usize, no[i + 1] as usize);
        let (os, oe) = (offs[off + i] as usize, offs[off + i + 1] as usize);
        assert!(e - s == oe - os && e <= v.len(), "same length, inside the truncated values buffer");
        let k: usize = kani::any();
        if k < e - s {
            assert!(v.as_slice()[s + k] == vals[os + k], "same bytes");
        }
    }
    assert!(len == 0 || v.len() == (offs[off + len] - offs[off]) as usize, "values truncated to the slice");
    kani::cover!(len == 0);
    kani::cover!(len == 2 && off == 1 && offs[1] > 0 && offs[3] > offs[1] + 1);
    std::mem::forget(data);
    std::mem::forget(o);
    std::mem::forget(v);
}

//@ tier: quick
//@ functions: arrow_ipc::writer::buffer_need_truncate, get_buffer_element_width
//@ bound: truth table over array offset, buffer length 0..=16 and minimum length, FixedWidth and AlwaysNull specs
#[kani::proof]
#[kani::unwind(4)]
fn c04_buffer_need_truncate_table() {
    let blen: usize = kani::any();
    kani::assume(blen <= 16);
    let buf = Buffer::from_vec(vec![0u8; 16]).slice_with_length(0, blen);
    let off: usize = kani::any();
    let min_len: usize = kani::any();
    let spec = BufferSpec::FixedWidth { byte_width: 4, alignment: 4 };
    assert!(buffer_need_truncate(off, &buf, &spec, min_len) == (off != 0 || min_len < blen), "truncate iff sliced or over-long");
    assert!(!buffer_need_truncate(off, &buf, &BufferSpec::AlwaysNull, min_len), "never for AlwaysNull");
    assert!(get_buffer_element_width(&spec) == 4 && get_buffer_element_width(&BufferSpec::BitMap) == 0);
    kani::cover!(off == 0 && min_len == blen);
    std::mem::forget(buf);
}
