//@ property: C02
//@ crate: arrow-data
//@ target: arrow-data/src/equal/utils.rs
// Child module of arrow-data/src/equal/utils.rs: the buffer-level primitives logical equality is built from.
use super::*;
use arrow_buffer::bit_util::get_bit;

//@ tier: quick
//@ functions: arrow_data::equal::utils::equal_bits, BitChunks::{new, iter_padded}
//@ bound: two 16-byte buffers with arbitrary contents, independent bit offsets 0..=40, len 0..=80: equal_bits is true iff the two logical bit ranges coincide (sound per index; complete via an arbitrary differing index), whatever the offsets and the bits outside the ranges; unwind 12
#[kani::proof]
#[kani::unwind(12)]
fn c02_equal_bits_layout_independent() {
    let l: [u8; 16] = kani::any();
    let r: [u8; 16] = kani::any();
    let lo: usize = kani::any();
    let ro: usize = kani::any();
    let len: usize = kani::any();
    kani::assume(lo <= 40 && ro <= 40 && len <= 80);
    let got = equal_bits(&l, &r, lo, ro, len);
    let i: usize = kani::any();
    if i < len {
        let same = get_bit(&l, lo + i) == get_bit(&r, ro + i);
        if got {
            assert!(same, "equal_bits true => every logical bit equal");
        }
        if !same {
            assert!(!got, "a differing logical bit => equal_bits false");
        }
    }
    kani::cover!(got && len > 64 && lo % 8 != ro % 8, "equal ranges at different sub-byte offsets");
    kani::cover!(!got && len > 64);
    kani::cover!(got && len == 0);
}

//@ tier: quick
//@ functions: arrow_data::equal::utils::equal_len
//@ bound: two 8-byte buffers, independent byte offsets, len 0..=6: true iff the byte ranges coincide; unwind 9
#[kani::proof]
#[kani::unwind(9)]
fn c02_equal_len_layout_independent() {
    let l: [u8; 8] = kani::any();
    let r: [u8; 8] = kani::any();
    let lo: usize = kani::any();
    let ro: usize = kani::any();
    let len: usize = kani::any();
    kani::assume(lo <= 2 && ro <= 2 && len <= 6);
    let got = equal_len(&l, &r, lo, ro, len);
    let i: usize = kani::any();
    if i < len {
        if got {
            assert!(l[lo + i] == r[ro + i]);
        }
        if l[lo + i] != r[ro + i] {
            assert!(!got);
        }
    }
    kani::cover!(got && len == 6 && lo != ro);
    kani::cover!(!got);
}
