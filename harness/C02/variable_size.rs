//@ property: C02
//@ crate: arrow-data
//@ target: arrow-data/src/equal/variable_size.rs
// Child module of arrow-data/src/equal/variable_size.rs: the value-level helpers of byte-array equality.
use super::*;
use super::super::list::lengths_equal as kani_lengths_equal;

//@ tier: quick
//@ functions: arrow_data::equal::variable_size::offset_value_equal::<i32>, arrow_data::equal::list::lengths_equal::<i32>, equal_len
//@ bound: two byte arrays of 2 rows each, realised with independent first offsets (0..=3) and row lengths 0..=3 over 10-byte value buffers with arbitrary bytes outside the rows: (lengths_equal && offset_value_equal over both rows) is true iff the rows have equal lengths and equal bytes - independent of where the values sit; unwind 14
#[kani::proof]
#[kani::unwind(14)]
fn c02_variable_size_values_layout_independent() {
    let lv: [u8; 10] = kani::any();
    let rv: [u8; 10] = kani::any();
    let (lb, l0, l1): (i32, i32, i32) = (kani::any(), kani::any(), kani::any());
    let (rb, r0, r1): (i32, i32, i32) = (kani::any(), kani::any(), kani::any());
    kani::assume(lb >= 0 && lb <= 3 && l0 >= 0 && l0 <= 3 && l1 >= 0 && l1 <= 3);
    kani::assume(rb >= 0 && rb <= 3 && r0 >= 0 && r0 <= 3 && r1 >= 0 && r1 <= 3);
    let lo = [lb, lb + l0, lb + l0 + l1];
    let ro = [rb, rb + r0, rb + r0 + r1];
    let got = kani_lengths_equal(&lo[..], &ro[..]) && offset_value_equal::<i32>(&lv, &rv, &lo, &ro, 0, 0, 2);
    // logical equality of the two rows
    let same_len = l0 == r0 && l1 == r1;
    let i: usize = kani::any();
    kani::assume(i < 6);
    let total = (l0 + l1) as usize;
    if got {
        assert!(same_len, "equal => row lengths equal");
        if i < total {
            assert!(lv[lb as usize + i] == rv[rb as usize + i], "equal => bytes equal");
        }
    }
    if !same_len || (i < total && lv[lb as usize + i] != rv[rb as usize + i]) {
        assert!(!got, "a logical difference => not equal");
    }
    kani::cover!(got && lb != rb && total == 6, "equal content at different offsets");
    kani::cover!(!got && l0 + l1 == r0 + r1 && l0 != r0, "same concatenation, different row boundaries");
    kani::cover!(got && total == 0);
}
