//@ property: C02
//@ crate: arrow-data
//@ target: arrow-data/src/data.rs
// Child module of arrow-data/src/data.rs.
use super::*;
use arrow_buffer::{BooleanBuffer, Buffer as ABuffer};

//@ tier: quick
//@ functions: arrow_data::data::{contains_nulls, count_nulls}, BitSliceIterator::{new, next}, Buffer::count_set_bits_offset
//@ bound: validity mask of 3 bytes viewed at NullBuffer offset 0..=5, queried range (offset, len) inside it: contains_nulls is true iff some row of the range is null; count_nulls = number of null rows (independent of the physical offset); unwind 21
#[kani::proof]
#[kani::unwind(21)]
fn c02_contains_and_count_nulls() {
    let raw: [u8; 3] = kani::any();
    let noff: usize = kani::any();
    let nlen: usize = kani::any();
    kani::assume(noff <= 5 && nlen <= 18 && noff + nlen <= 24);
    let nb = NullBuffer::new(BooleanBuffer::new(ABuffer::from_vec(raw.to_vec()), noff, nlen));
    let off: usize = kani::any();
    let len: usize = kani::any();
    kani::assume(off <= nlen && len <= nlen - off);
    let has = contains_nulls(Some(&nb), off, len);
    let cnt = count_nulls(Some(&nb), off, len);
    let mut nulls = 0usize;
    let mut j = 0;
    while j < 18 {
        if j >= off && j < off + len && (raw[(noff + j) / 8] >> ((noff + j) % 8)) & 1 == 0 {
            nulls += 1;
        }
        j += 1;
    }
    assert!(has == (nulls > 0), "contains_nulls iff a null row in the range");
    assert!(cnt == nulls, "count_nulls = null rows in the range");
    assert!(!contains_nulls(None, off, len) && count_nulls(None, off, len) == 0, "no validity buffer = no nulls");
    kani::cover!(has && len > 9 && nulls == 1);
    kani::cover!(!has && len > 9);
    kani::cover!(len == 0);
    std::mem::forget(nb);
}
