//@ property: C02
//@ crate: arrow-data
//@ target: arrow-data/src/equal/boolean.rs
//@ inject: arrow-data/src/data.rs :: #[cfg(kani)] pub fn verif_kani_array_data(data_type: DataType, len: usize, offset: usize, buffers: Vec<Buffer>, child_data: Vec<ArrayData>, nulls: Option<NullBuffer>) -> ArrayData { ArrayData { data_type, len, offset, buffers, child_data, nulls } }
// Child module of arrow-data/src/equal/boolean.rs: value equality of two Boolean ArrayData ranges, as `==` on a
// list-of-boolean (or struct) array runs it for the child range (non-zero start) of a sliced child (non-zero bit
// offset).  ArrayData's fields are private to arrow_data::data, so one cfg(kani)-only constructor line is appended
// to the overlay copy of arrow-data/src/data.rs (never to /repo).
use super::*;
use crate::data::verif_kani_array_data;
use arrow_buffer::Buffer;
use arrow_schema::DataType;

fn bit(b: &[u8; 6], i: usize) -> bool {
    (b[i / 8] >> (i % 8)) & 1 == 1
}

//@ tier: quick
//@ timeout: 900
//@ functions: arrow_data::equal::boolean::boolean_equal (no-null branch: byte-wise fast path + equal_bits), equal::utils::{equal_len, equal_bits}
//@ bound: two Boolean ArrayData without validity over 6 arbitrary bytes each, independent symbolic bit offsets 0..=12, range starts 0..=12 and common length 0..=20 (offset + start + len <= 48): boolean_equal is true iff the two logical bit ranges coincide, for every split of a position into array offset and range start (incl. start % 8 + offset % 8 == 8); sound per index, complete via an arbitrary differing index; unwind 8
#[kani::proof]
#[kani::unwind(8)]
fn c02_boolean_equal_layout_independent() {
    let l: [u8; 6] = kani::any();
    let r: [u8; 6] = kani::any();
    let lo: usize = kani::any();
    let ro: usize = kani::any();
    let ls: usize = kani::any();
    let rs: usize = kani::any();
    let len: usize = kani::any();
    kani::assume(lo <= 12 && ro <= 12 && ls <= 12 && rs <= 12 && len <= 20);
    let lhs = verif_kani_array_data(DataType::Boolean, 36, lo, vec![Buffer::from_vec(l.to_vec())], vec![], None);
    let rhs = verif_kani_array_data(DataType::Boolean, 36, ro, vec![Buffer::from_vec(r.to_vec())], vec![], None);
    let got = boolean_equal(&lhs, &rhs, ls, rs, len);
    let i: usize = kani::any();
    if i < len {
        let same = bit(&l, lo + ls + i) == bit(&r, ro + rs + i);
        if got {
            assert!(same, "boolean_equal true => every logical value equal");
        }
        if !same {
            assert!(!got, "a differing logical value => boolean_equal false");
        }
    }
    kani::cover!(got && len >= 9 && (ls + lo) % 8 == 0 && ls % 8 == 4 && rs % 8 == 0 && ro % 8 == 0, "start and offset that only together are byte aligned");
    kani::cover!(got && len == 16 && ls == 8 && lo == 8 && rs == 0 && ro == 0, "byte-wise fast path");
    kani::cover!(!got && len > 8);
    std::mem::forget(lhs);
    std::mem::forget(rhs);
}
