//@ property: C17
//@ crate: arrow-json
//@ target: arrow-json/src/reader/tape.rs
// Child module of arrow-json/src/reader/tape.rs (the JSON tape decoder's escape handling).
use super::*;

fn stub_format(_a: std::fmt::Arguments<'_>) -> String {
    String::new()
}

//@ tier: quick
//@ functions: arrow_json::reader::tape::char_from_surrogate_pair
//@ bound: every pair of 16-bit code units: a (high, low) surrogate pair decodes to the scalar value RFC 8259 / UTF-16 define, 0x10000 + ((high - 0xD800) << 10) + (low - 0xDC00); anything else is an error
//@ stub: alloc::fmt::format -> empty String
#[kani::proof]
#[kani::stub(alloc::fmt::format, stub_format)]
fn c17_json_surrogate_pair_decoding() {
    let low: u16 = kani::any();
    let high: u16 = kani::any();
    let r = char_from_surrogate_pair(low, high);
    let is_pair = (0xD800..=0xDBFF).contains(&high) && (0xDC00..=0xDFFF).contains(&low);
    match &r {
        Ok(c) => {
            assert!(is_pair, "only a high surrogate followed by a low surrogate is a pair");
            let want = 0x10000u32 + (((high - 0xD800) as u32) << 10) + (low - 0xDC00) as u32;
            assert!(*c as u32 == want, "UTF-16 surrogate pair decodes to the defined scalar value");
        }
        Err(_) => assert!(!is_pair, "every well-formed pair decodes"),
    }
    kani::cover!(is_pair && high >= 0xD840, "supplementary planes 2 and above");
    kani::cover!(is_pair && high == 0xD83D, "emoji plane");
    kani::cover!(!is_pair);
    std::mem::forget(r);
}
