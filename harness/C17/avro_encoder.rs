//@ property: C17
//@ crate: arrow-avro
//@ target: arrow-avro/src/writer/encoder.rs
//@ inject: arrow-avro/src/reader/mod.rs :: #[cfg(kani)] pub(crate) use self::cursor::AvroCursor as KaniAvroCursor;
// Child module of arrow-avro/src/writer/encoder.rs (private writer primitives); the reader-side cursor is
// re-exported for cfg(kani) only by one line appended to the overlay copy of reader/mod.rs.
use super::*;
use crate::reader::KaniAvroCursor as AvroCursor;

fn stub_format(_a: std::fmt::Arguments<'_>) -> String {
    String::new()
}

// infallible sink (DESIGN §4 rule 10: no io::Error on a symbolic path)
struct Sink {
    buf: [u8; 16],
    n: usize,
}
impl std::io::Write for Sink {
    fn write(&mut self, b: &[u8]) -> std::io::Result<usize> {
        self.write_all(b)?;
        Ok(b.len())
    }
    fn write_all(&mut self, b: &[u8]) -> std::io::Result<()> {
        let mut i = 0;
        while i < b.len() {
            self.buf[self.n + i] = b[i];
            i += 1;
        }
        self.n += b.len();
        Ok(())
    }
    fn flush(&mut self) -> std::io::Result<()> {
        Ok(())
    }
}

//@ tier: quick
//@ functions: arrow_avro::writer::encoder::write_long, arrow_avro::reader::cursor::AvroCursor::{get_long, skip_long}
//@ bound: every i64: the written bytes (1..=10) decode to the same value, the reader consumes exactly what the writer produced, skip_long skips exactly that; unwind 12
//@ stub: alloc::fmt::format -> empty String; writer sink = fixed array with infallible write_all
#[kani::proof]
#[kani::unwind(12)]
#[kani::stub(alloc::fmt::format, stub_format)]
fn c17_avro_long_roundtrip() {
    let v: i64 = kani::any();
    let mut sink = Sink { buf: [0; 16], n: 0 };
    let r = write_long(&mut sink, v);
    assert!(r.is_ok());
    std::mem::forget(r);
    let n = sink.n;
    assert!(n >= 1 && n <= 10, "1..=10 bytes");
    let mut c = AvroCursor::new(&sink.buf[..n]);
    let got = c.get_long();
    assert!(matches!(got, Ok(x) if x == v), "long round trip");
    std::mem::forget(got);
    assert!(c.position() == n, "reader consumed what the writer produced");
    let mut d = AvroCursor::new(&sink.buf[..n]);
    let s = d.skip_long();
    assert!(s.is_ok() && d.position() == n, "skip_long skips exactly the value");
    std::mem::forget(s);
    kani::cover!(n == 10);
    kani::cover!(v == i64::MIN);
    kani::cover!(n == 1 && v == -1);
}

//@ tier: quick
//@ functions: arrow_avro::writer::encoder::write_int, arrow_avro::reader::cursor::AvroCursor::{get_int, skip_int}
//@ bound: every i32: round trip, bytes consumed, skip_int in step; unwind 8
//@ stub: alloc::fmt::format -> empty String; infallible sink
#[kani::proof]
#[kani::unwind(8)]
#[kani::stub(alloc::fmt::format, stub_format)]
fn c17_avro_int_roundtrip() {
    let v: i32 = kani::any();
    let mut sink = Sink { buf: [0; 16], n: 0 };
    let r = write_int(&mut sink, v);
    assert!(r.is_ok());
    std::mem::forget(r);
    let n = sink.n;
    assert!(n >= 1 && n <= 5, "1..=5 bytes");
    let mut c = AvroCursor::new(&sink.buf[..n]);
    let got = c.get_int();
    assert!(matches!(got, Ok(x) if x == v), "int round trip");
    std::mem::forget(got);
    assert!(c.position() == n);
    let mut d = AvroCursor::new(&sink.buf[..n]);
    let s = d.skip_int();
    assert!(s.is_ok() && d.position() == n, "skip_int accepts and skips every written int");
    std::mem::forget(s);
    kani::cover!(n == 5 && v == i32::MIN);
    kani::cover!(n == 1);
}

//@ tier: quick
//@ functions: arrow_avro::writer::encoder::{write_len_prefixed, write_bool}, arrow_avro::reader::cursor::AvroCursor::{get_bytes, get_bool}
//@ bound: payload of 0..=4 arbitrary bytes + one bool: length prefix and payload round-trip, cursor ends at the end of what was written; unwind 8
//@ stub: alloc::fmt::format -> empty String; infallible sink
#[kani::proof]
#[kani::unwind(8)]
#[kani::stub(alloc::fmt::format, stub_format)]
fn c17_avro_len_prefixed_roundtrip() {
    let p: [u8; 4] = kani::any();
    let l: usize = kani::any();
    kani::assume(l <= 4);
    let b: bool = kani::any();
    let mut sink = Sink { buf: [0; 16], n: 0 };
    let r = write_len_prefixed(&mut sink, &p[..l]);
    std::mem::forget(r);
    let r = write_bool(&mut sink, b);
    std::mem::forget(r);
    let n = sink.n;
    assert!(n == l + 2, "one length byte + payload + one bool byte");
    let mut c = AvroCursor::new(&sink.buf[..n]);
    match c.get_bytes() {
        Ok(got) => {
            assert!(got.len() == l, "payload length");
            let i: usize = kani::any();
            if i < l {
                assert!(got[i] == p[i], "payload byte");
            }
        }
        Err(e) => {
            std::mem::forget(e);
            assert!(false, "reader rejected written bytes");
        }
    }
    assert!(matches!(c.get_bool(), Ok(x) if x == b), "bool round trip");
    assert!(c.position() == n);
    kani::cover!(l == 4 && b);
    kani::cover!(l == 0);
}

// value of a big-endian two's-complement byte string (<= 7 bytes)
fn be_value(b: &[u8]) -> i64 {
    if b.is_empty() {
        return 0;
    }
    let mut v: i64 = if b[0] & 0x80 != 0 { -1 } else { 0 };
    let mut i = 0;
    while i < b.len() {
        v = (v << 8) | (b[i] as i64);
        i += 1;
    }
    v
}

//@ tier: quick
//@ functions: arrow_avro::writer::encoder::{minimal_twos_complement, write_sign_extended}
//@ bound: source of 1..=5 arbitrary big-endian bytes, target width 0..=4: minimal form denotes the same integer and is minimal; write_sign_extended emits exactly n bytes denoting the same integer, or errs exactly when the integer does not fit n bytes; unwind 8
//@ stub: alloc::fmt::format -> empty String; infallible sink
#[kani::proof]
#[kani::unwind(8)]
#[kani::stub(alloc::fmt::format, stub_format)]
fn c17_avro_decimal_bytes() {
    let s: [u8; 5] = kani::any();
    let l: usize = kani::any();
    kani::assume(l >= 1 && l <= 5);
    let src = &s[..l];
    let v = be_value(src);
    let m = minimal_twos_complement(src);
    assert!(m.len() >= 1 && m.len() <= l && be_value(m) == v, "minimal form denotes the same integer");
    if m.len() > 1 {
        // dropping one more byte would change the value
        assert!(be_value(&m[1..]) != v, "minimal form is minimal");
    }
    let n: usize = kani::any();
    kani::assume(n <= 4);
    let mut sink = Sink { buf: [0; 16], n: 0 };
    let r = write_sign_extended(&mut sink, src, n);
    let fits = if n == 0 { v == 0 || v == -1 } else { v >= -(1i64 << (8 * n - 1)) && v < (1i64 << (8 * n - 1)) };
    match r {
        Ok(()) => {
            assert!(fits, "accepted only if the value fits n bytes");
            assert!(sink.n == n, "exactly n bytes written");
            if n > 0 {
                assert!(be_value(&sink.buf[..n]) == v, "written bytes denote the same integer");
            }
        }
        Err(e) => {
            std::mem::forget(e);
            assert!(!fits, "rejected only on overflow");
        }
    }
    kani::cover!(l == 5 && n == 2 && fits && v < 0, "truncating a sign-extended negative");
    kani::cover!(l == 1 && n == 4, "sign extension");
    kani::cover!(!fits && l > n && n > 0, "overflow detected");
}
