//@ property: C17
//@ crate: arrow-json
//@ target: arrow-json/src/reader/binary_array.rs
// Child module of arrow-json/src/reader/binary_array.rs: the hex decoder every JSON binary value is read through
// (the JSON writer emits binary values as hex strings).
use super::*;

fn stub_format(_a: std::fmt::Arguments<'_>) -> String {
    String::new()
}

struct Sink {
    buf: [u8; 72],
    n: usize,
}
impl std::io::Write for Sink {
    fn write(&mut self, b: &[u8]) -> std::io::Result<usize> {
        self.write_all(b)?;
        Ok(b.len())
    }
    fn write_all(&mut self, b: &[u8]) -> std::io::Result<()> {
        self.buf[self.n..self.n + b.len()].copy_from_slice(b); // memcpy: no loop to unwind
        self.n += b.len();
        Ok(())
    }
    fn flush(&mut self) -> std::io::Result<()> {
        Ok(())
    }
}

const HEX: &[u8; 16] = b"0123456789abcdef";

fn hex_roundtrip<const LEN: usize>() {
    let data: [u8; 67] = kani::any();
    let mut text = [0u8; 134];
    let mut i = 0;
    while i < LEN {
        text[2 * i] = HEX[(data[i] >> 4) as usize];
        text[2 * i + 1] = HEX[(data[i] & 0xF) as usize];
        i += 1;
    }
    let s = unsafe { std::str::from_utf8_unchecked(&text[..2 * LEN]) };
    let mut sink = Sink { buf: [0; 72], n: 0 };
    let r = decode_hex_to_writer(s, &mut sink);
    let ok = r.is_ok();
    std::mem::forget(r);
    assert!(ok, "valid hex decodes");
    assert!(sink.n == LEN, "one output byte per pair of hex digits");
    let k: usize = kani::any();
    kani::assume(k < LEN);
    assert!(sink.buf[k] == data[k], "byte k survives the round trip");
    kani::cover!(k == LEN - 1, "last byte");
    kani::cover!(k == 0);
}

macro_rules! hex_instance {
    ($name:ident, $len:expr) => {
        //@ tier: thorough
        //@ timeout: 3000
        //@ functions: arrow_json::reader::binary_array::{decode_hex_to_writer, decode_hex_digit}
        //@ bound: the lower-case hex text of every byte string of the instance's length (64, 65 and 66 bytes: the decoder stages output in a 64-byte stack buffer, so these fill it exactly and overflow it by one and two bytes): the decoded bytes are exactly the encoded ones, none dropped or duplicated; per-index; unwind 70
        //@ stub: alloc::fmt::format -> empty String; writer = fixed array with infallible write_all
        #[kani::proof]
        #[kani::unwind(70)]
        #[kani::stub(alloc::fmt::format, stub_format)]
        fn $name() {
            hex_roundtrip::<{ $len }>();
        }
    };
}

hex_instance!(c17_json_hex_binary_64_bytes, 64);
hex_instance!(c17_json_hex_binary_65_bytes, 65);
hex_instance!(c17_json_hex_binary_66_bytes, 66);

//@ tier: thorough
//@ timeout: 2400
//@ functions: arrow_json::reader::binary_array::{decode_hex_to_writer, decode_hex_digit}
//@ bound: hex text of a 66-byte value whose first 60 bytes are a fixed pattern (byte i = 7*i+1) and whose last 6 bytes (positions 60..=65, i.e. the bytes just before and after the 64-byte staging buffer fills) are arbitrary: decoded length 66 and bytes 60..=65 exact; (symbolic execution of the 66 loop iterations alone takes ~600 s, so this sits in the thorough tier with the fully symbolic 64/65/66-byte instances); unwind 70
//@ stub: alloc::fmt::format -> empty String; writer = fixed array with infallible write_all
#[kani::proof]
#[kani::unwind(70)]
#[kani::stub(alloc::fmt::format, stub_format)]
fn c17_json_hex_binary_buffer_edge() {
    const LEN: usize = 66;
    let tail: [u8; 6] = kani::any();
    let mut text = [0u8; 134];
    let mut i = 0;
    while i < LEN {
        let b = if i < 60 { (7 * i + 1) as u8 } else { tail[i - 60] };
        text[2 * i] = HEX[(b >> 4) as usize];
        text[2 * i + 1] = HEX[(b & 0xF) as usize];
        i += 1;
    }
    let s = unsafe { std::str::from_utf8_unchecked(&text[..2 * LEN]) };
    let mut sink = Sink { buf: [0; 72], n: 0 };
    let r = decode_hex_to_writer(s, &mut sink);
    let ok = r.is_ok();
    std::mem::forget(r);
    assert!(ok && sink.n == LEN, "valid hex decodes to one byte per digit pair");
    let k: usize = kani::any();
    kani::assume(k >= 58 && k < LEN);
    let want = if k < 60 { (7 * k + 1) as u8 } else { tail[k - 60] };
    assert!(sink.buf[k] == want, "bytes around the staging-buffer edge survive");
    kani::cover!(k == 64);
    kani::cover!(k == 65);
}

//@ tier: quick
//@ timeout: 600
//@ functions: arrow_json::reader::binary_array::{decode_hex_to_writer, decode_hex_digit}
//@ bound: the lower-case hex text of every 5-byte value: decoded length 5 and every byte exact (the staging-buffer boundary at 64 bytes is the thorough tier's subject); unwind 70
//@ stub: alloc::fmt::format -> empty String; writer = fixed array with infallible write_all
#[kani::proof]
#[kani::unwind(70)]
#[kani::stub(alloc::fmt::format, stub_format)]
fn c17_json_hex_binary_short_value() {
    hex_roundtrip::<5>();
}
