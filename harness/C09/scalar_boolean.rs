//@ property: C09
//@ crate: arrow-buffer
//@ target: arrow-buffer/src/buffer/scalar.rs
// Child module of arrow-buffer/src/buffer/scalar.rs.
use super::*;
use crate::BooleanBuffer;

fn stub_format(_a: std::fmt::Arguments<'_>) -> String {
    String::new()
}

//@ tier: quick
//@ functions: arrow_buffer::ScalarBuffer::<i32>::new, Buffer::slice_with_length, From<Buffer> for ScalarBuffer (alignment check)
//@ bound: 16-byte buffer, element offset/len full usize (overflow paths included) with offset+len inside the buffer: accepted, and element k reads the right bytes; unwind 6
//@ stub: alloc::fmt::format -> empty String
#[kani::proof]
#[kani::unwind(6)]
#[kani::stub(alloc::fmt::format, stub_format)]
fn c09_scalar_buffer_accepts_in_bounds() {
    let raw: [i32; 4] = kani::any();
    let buf = Buffer::from_vec(raw.to_vec());
    let off: usize = kani::any();
    let len: usize = kani::any();
    kani::assume(off <= 4 && len <= 4 - off);
    let sb = ScalarBuffer::<i32>::new(buf, off, len);
    assert!(sb.len() == len);
    let k: usize = kani::any();
    if k < len {
        assert!(sb[k] == raw[off + k], "element k");
    }
    kani::cover!(off == 1 && len == 3);
    kani::cover!(len == 0 && off == 4);
    std::mem::forget(sb);
}

//@ tier: quick
//@ expect_panics: yes
//@ functions: arrow_buffer::ScalarBuffer::<i32>::new
//@ bound: 16-byte buffer, ANY usize offset/len whose element range is not inside the buffer (including values whose byte size overflows usize): never returns; unwind 6
//@ stub: alloc::fmt::format -> empty String
#[kani::proof]
#[kani::unwind(6)]
#[kani::stub(alloc::fmt::format, stub_format)]
fn c09_scalar_buffer_rejects_out_of_bounds() {
    let raw: [i32; 4] = kani::any();
    let buf = Buffer::from_vec(raw.to_vec());
    let off: usize = kani::any();
    let len: usize = kani::any();
    kani::assume(off > 4 || len > 4 - off);
    kani::cover!(off == 2 && len == 3, "one element too many");
    kani::cover!(len > usize::MAX / 2, "byte length overflows");
    let sb = ScalarBuffer::<i32>::new(buf, off, len);
    std::mem::forget(sb);
    assert!(false, "ACCEPTED-INVALID: ScalarBuffer::new returned for a range outside the buffer");
}

//@ tier: quick
//@ functions: arrow_buffer::BooleanBuffer::{new, value, len}
//@ bound: 4-byte buffer, any usize bit offset/len: in range => accepted and value(i) reads bit offset+i
//@ stub: alloc::fmt::format -> empty String
#[kani::proof]
#[kani::unwind(6)]
#[kani::stub(alloc::fmt::format, stub_format)]
fn c09_boolean_buffer_accepts_in_bounds() {
    let raw: [u8; 4] = kani::any();
    let off: usize = kani::any();
    let len: usize = kani::any();
    kani::assume(off <= 32 && len <= 32 - off);
    let bb = BooleanBuffer::new(Buffer::from_vec(raw.to_vec()), off, len);
    assert!(bb.len() == len);
    let i: usize = kani::any();
    if i < len {
        assert!(bb.value(i) == ((raw[(off + i) / 8] >> ((off + i) % 8)) & 1 == 1), "value(i)");
    }
    kani::cover!(off == 7 && len == 25);
    std::mem::forget(bb);
}

//@ tier: quick
//@ expect_panics: yes
//@ functions: arrow_buffer::BooleanBuffer::new
//@ bound: 4-byte buffer, ANY usize bit offset/len not inside 32 bits (incl. offset+len overflowing usize): never returns
//@ stub: alloc::fmt::format -> empty String
#[kani::proof]
#[kani::unwind(6)]
#[kani::stub(alloc::fmt::format, stub_format)]
fn c09_boolean_buffer_rejects_out_of_bounds() {
    let raw: [u8; 4] = kani::any();
    let off: usize = kani::any();
    let len: usize = kani::any();
    kani::assume(off > 32 || len > 32 - off);
    kani::cover!(off == 31 && len == 2);
    kani::cover!(off == usize::MAX && len == 2, "offset + len wraps");
    let bb = BooleanBuffer::new(Buffer::from_vec(raw.to_vec()), off, len);
    std::mem::forget(bb);
    assert!(false, "ACCEPTED-INVALID: BooleanBuffer::new returned for a bit range outside the buffer");
}
