//@ property: C09
//@ crate: arrow-data
//@ target: arrow-data/src/data.rs
// Child module of arrow-data/src/data.rs: the run-end part of ArrayData::validate_full (validate_values' arm for
// DataType::RunEndEncoded and check_run_ends), entered through the public validate_values on a struct-literal
// ArrayData whose data type is a concrete RunEndEncoded(Int16, Int32).  Nothing is dropped.
use super::*;
use arrow_schema::Field;
use std::sync::Arc;

fn stub_format(_a: std::fmt::Arguments<'_>) -> String {
    String::new()
}

// Field carries a HashMap for its metadata; RandomState::new() reads the OS random source (a foreign call)
fn fixed_random_state() -> std::hash::RandomState {
    unsafe { std::mem::transmute::<[u64; 2], std::hash::RandomState>([0, 0]) }
}

// ArrayData::clone would walk DataType::clone, whose recursion over every variant is what the model checker cannot
// finish (DESIGN 10.4).  validate_values clones the run-ends child only to read it; for the concrete Int16 child of
// this harness the clone below is field-for-field the derived one.
fn clone_int16_leaf(a: &ArrayData) -> ArrayData {
    ArrayData {
        data_type: DataType::Int16,
        len: a.len,
        offset: a.offset,
        buffers: vec![a.buffers[0].clone()],
        child_data: vec![],
        nulls: None,
    }
}

// Arrow format: run ends strictly increasing and positive, and the last run end covers offset + len of the PARENT
fn spec_valid(r: &[i16; 3], off: usize, len: usize) -> bool {
    r[0] > 0 && r[0] < r[1] && r[1] < r[2] && off.saturating_add(len) <= r[2] as usize
}

fn run_end_model(off: usize, len: usize) {
    let r: [i16; 3] = kani::any();
    let run_ends = ArrayData {
        data_type: DataType::Int16,
        len: 3,
        offset: 0,
        buffers: vec![Buffer::from_vec(r.to_vec())],
        child_data: vec![],
        nulls: None,
    };
    let values = ArrayData {
        data_type: DataType::Int32,
        len: 3,
        offset: 0,
        buffers: vec![Buffer::from_vec(vec![7i32, 8, 9])],
        child_data: vec![],
        nulls: None,
    };
    let d = ArrayData {
        data_type: DataType::RunEndEncoded(
            Arc::new(Field::new("run_ends", DataType::Int16, false)),
            Arc::new(Field::new("values", DataType::Int32, true)),
        ),
        len,
        offset: off,
        buffers: vec![],
        child_data: vec![run_ends, values],
        nulls: None,
    };
    let res = d.validate_values();
    let ok = res.is_ok();
    std::mem::forget(res);
    if ok {
        assert!(
            spec_valid(&r, off, len),
            "ACCEPTED-INVALID: run-end-encoded data accepted although the run ends are not positive, strictly increasing and covering offset + len"
        );
    } else {
        assert!(!spec_valid(&r, off, len), "valid run-end-encoded data rejected");
    }
    kani::cover!(ok, "a valid layout is accepted");
    kani::cover!(!ok && r[0] > 0 && r[0] < r[1] && r[1] < r[2], "only the logical length is wrong");
    std::mem::forget(d);
}

//@ tier: quick
//@ timeout: 1500
//@ functions: arrow_data::ArrayData::{validate_values (RunEndEncoded arm), check_run_ends::<i16>, typed_buffer}, checked_len_plus_offset
//@ bound: RunEndEncoded(Int16, Int32) ArrayData (struct literal) with THREE arbitrary i16 run ends and a logical (offset, len) of the PARENT array chosen per instance, len symbolic in 0..=40000: validate_values returns Ok exactly when the run ends are positive, strictly increasing and the last one is >= offset + len (Arrow format); unwind 6 [instances: offset 0; offset 2]
//@ stub: alloc::fmt::format -> empty String; std::hash::RandomState::new -> fixed keys (Field metadata map, never used); <ArrayData as Clone>::clone -> field-for-field clone of the concrete Int16 leaf (avoids DataType::clone's recursion over all variants)
#[kani::proof]
#[kani::unwind(6)]
#[kani::stub(alloc::fmt::format, stub_format)]
#[kani::stub(std::hash::RandomState::new, fixed_random_state)]
#[kani::stub(<crate::data::ArrayData as std::clone::Clone>::clone, clone_int16_leaf)]
fn c09_run_end_data_accepts_iff_covering_offset0() {
    let len: usize = kani::any();
    kani::assume(len <= 40000);
    run_end_model(0, len);
}

//@ tier: quick
//@ timeout: 1500
//@ functions: arrow_data::ArrayData::{validate_values (RunEndEncoded arm), check_run_ends::<i16>}
//@ bound: as c09_run_end_data_accepts_iff_covering_offset0 with parent offset 2 (a sliced run array)
//@ stub: alloc::fmt::format -> empty String; std::hash::RandomState::new -> fixed keys; <ArrayData as Clone>::clone -> field-for-field clone of the Int16 leaf
#[kani::proof]
#[kani::unwind(6)]
#[kani::stub(alloc::fmt::format, stub_format)]
#[kani::stub(std::hash::RandomState::new, fixed_random_state)]
#[kani::stub(<crate::data::ArrayData as std::clone::Clone>::clone, clone_int16_leaf)]
fn c09_run_end_data_accepts_iff_covering_offset2() {
    let len: usize = kani::any();
    kani::assume(len <= 40000);
    run_end_model(2, len);
}
