//@ property: C09
//@ crate: arrow-data
//@ target: arrow-data/src/byte_view.rs
// Child module of arrow-data/src/byte_view.rs: the validator behind GenericByteViewArray::try_new and
// ArrayData::validate_full for BinaryView / Utf8View.
use super::*;

fn stub_format(_a: std::fmt::Arguments<'_>) -> String {
    String::new()
}

//@ tier: quick
//@ functions: arrow_data::byte_view::{validate_binary_view, validate_view_impl}, ByteView::from
//@ bound: one ARBITRARY 128-bit view (every length, prefix, buffer index and offset) over 0..=2 data buffers of 16 arbitrary bytes each: accepted iff the view satisfies the format - inline (length <= 12) with zero padding, or out-of-line with a valid buffer index, offset + length inside that buffer and the embedded prefix equal to the first four data bytes; unwind 20
//@ stub: alloc::fmt::format -> empty String
#[kani::proof]
#[kani::unwind(20)]
#[kani::stub(alloc::fmt::format, stub_format)]
fn c09_binary_view_accepts_iff_wellformed() {
    let v: u128 = kani::any();
    let b0: [u8; 16] = kani::any();
    let b1: [u8; 16] = kani::any();
    let nbuf: usize = kani::any();
    kani::assume(nbuf <= 2);
    let bufs = [Buffer::from_vec(b0.to_vec()), Buffer::from_vec(b1.to_vec())];
    let r = validate_binary_view(&[v], &bufs[..nbuf]);
    let ok = r.is_ok();
    std::mem::forget(r);
    // independent predicate from the columnar format specification
    let len = (v & 0xFFFF_FFFF) as u32;
    let spec = if len <= 12 {
        len == 12 || (v >> (32 + 8 * len)) == 0
    } else {
        let prefix = ((v >> 32) & 0xFFFF_FFFF) as u32;
        let bi = ((v >> 64) & 0xFFFF_FFFF) as usize;
        let off = ((v >> 96) & 0xFFFF_FFFF) as usize;
        if bi >= nbuf || off + len as usize > 16 {
            false
        } else {
            let d = if bi == 0 { &b0 } else { &b1 };
            let mut p = [0u8; 4];
            let mut k = 0;
            while k < 4 {
                p[k] = d[(off + k) % 16];
                k += 1;
            }
            u32::from_le_bytes(p) == prefix
        }
    };
    assert!(ok == spec, "accepted exactly when the view is well formed");
    std::mem::forget(bufs);
    kani::cover!(ok && len == 14, "out-of-line view accepted");
    kani::cover!(!ok && len == 14 && ((v >> 64) & 0xFFFF_FFFF) == 1 && nbuf == 2, "rejected for offset / prefix");
    kani::cover!(!ok && len == 5, "non-zero padding rejected");
    kani::cover!(ok && len == 12);
}
