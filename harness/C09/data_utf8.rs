//@ property: C09
//@ crate: arrow-data
//@ target: arrow-data/src/data.rs
// Child module of arrow-data/src/data.rs: the private typed validators ArrayData::validate_full runs for Utf8 /
// Binary, called directly (the DataType dispatcher itself is out of reach, DESIGN §5 C09). The ArrayData is a
// struct literal and is never dropped.
use super::*;

fn stub_format(_a: std::fmt::Arguments<'_>) -> String {
    String::new()
}

// byte-wise UTF-8 validator (RFC 3629, Unicode table 3-7) for slices of at most 3 bytes
fn valid_utf8(b: &[u8]) -> bool {
    let e = b.len();
    let mut i = 0;
    let mut steps = 0;
    while steps < 3 {
        if i < e {
            let c = b[i];
            let need = if c < 0x80 {
                0
            } else if c >= 0xC2 && c <= 0xDF {
                1
            } else if c >= 0xE0 && c <= 0xEF {
                2
            } else {
                return false; // four-byte forms do not fit in 3 bytes; C0, C1, F5.. are never valid
            };
            if i + need >= e && need > 0 {
                return false;
            }
            if need >= 1 {
                let d = b[i + 1];
                let (lo, hi) = match c {
                    0xE0 => (0xA0, 0xBF),
                    0xED => (0x80, 0x9F),
                    _ => (0x80, 0xBF),
                };
                if d < lo || d > hi {
                    return false;
                }
            }
            if need == 2 {
                let d = b[i + 2];
                if d < 0x80 || d > 0xBF {
                    return false;
                }
            }
            i += need + 1;
        }
        steps += 1;
    }
    true
}

// Contract model of core::str::from_utf8 for inputs of at most 3 bytes: Ok exactly for well-formed UTF-8.  The
// real routine's word-at-a-time ASCII fast path over a slice of symbolic start and length is what exhausted
// the memory cap; it is std's code, not arrow's, and is taken as correct here (stated in the stub list).
fn model_from_utf8(v: &[u8]) -> Result<&str, std::str::Utf8Error> {
    kani::assume(v.len() <= 3);
    if valid_utf8(v) {
        Ok(unsafe { std::str::from_utf8_unchecked(v) })
    } else {
        // Utf8Error has private fields; its content is only ever formatted (formatting is stubbed)
        Err(unsafe { std::mem::transmute::<[u64; 2], std::str::Utf8Error>([0, 0]) })
    }
}

fn utf8_row_model(aoff: usize) {
    let offs: [i32; 3] = kani::any();
    let vals: [u8; 3] = kani::any();
    let d = ArrayData {
        data_type: DataType::Utf8,
        len: 1,
        offset: aoff,
        buffers: vec![Buffer::from_vec(offs.to_vec()), Buffer::from_vec(vals.to_vec())],
        child_data: vec![],
        nulls: None,
    };
    // validate_full's order: the cheap first/last offset check (validate -> validate_offsets), then the per-row
    // validator.  validate_each_offset on its own skips its first element ("the first element is meaningless"),
    // so a negative first offset is only caught by validate_offsets: both are part of the unit checked.
    let pre = d.validate_offsets::<i32>(3);
    let r = d.validate_utf8::<i32>();
    let ok = pre.is_ok() && r.is_ok();
    std::mem::forget(pre);
    std::mem::forget(r);
    let (s, e) = (offs[aoff], offs[aoff + 1]);
    if ok {
        assert!(s >= 0 && s <= e && e <= 3, "accepted => offsets ordered and inside the values buffer");
        assert!(valid_utf8(&vals[s as usize..e as usize]), "accepted => the row is valid UTF-8 by itself");
    }
    kani::cover!(ok && e - s == 3 && vals[0] >= 0xE0, "a three-byte character accepted");
    kani::cover!(!ok && s == 1 && e == 3 && vals[0] >= 0xC2 && vals[0] <= 0xDF && vals[1] >= 0x80 && vals[1] < 0xC0 && vals[2] < 0x80, "first offset inside a character of an otherwise valid buffer: rejected");
    kani::cover!(ok && s > 0);
    std::mem::forget(d);
}

//@ tier: quick
//@ timeout: 900
//@ functions: arrow_data::ArrayData::{validate_offsets::<i32>, validate_utf8::<i32>, validate_each_offset, typed_offsets, typed_buffer}, core::str::from_utf8, str::is_char_boundary
//@ bound: Utf8 ArrayData (struct literal) of ONE row at array offset 0 over arbitrary i32 offsets and a values buffer of exactly 3 arbitrary bytes: accepted by validate_offsets then validate_utf8 (validate_full's sequence) => the row's byte range is in bounds, ordered, and is valid UTF-8 on its own (so a first offset inside a multi-byte character is rejected); unwind 8
//@ stub: alloc::fmt::format -> empty String; core::str::from_utf8 -> byte-wise RFC 3629 validator for <= 3 bytes (std's validator is taken as correct; what is decided is which byte ranges arrow hands to it and the char-boundary checks)
#[kani::proof]
#[kani::unwind(8)]
#[kani::stub(alloc::fmt::format, stub_format)]
#[kani::stub(std::str::from_utf8, model_from_utf8)]
fn c09_validate_utf8_accepts_only_valid_rows() {
    utf8_row_model(0);
}

//@ tier: quick
//@ timeout: 900
//@ functions: arrow_data::ArrayData::{validate_offsets::<i32>, validate_utf8::<i32>, validate_each_offset, typed_offsets, typed_buffer}
//@ bound: as c09_validate_utf8_accepts_only_valid_rows with the row at array offset 1 (the second and third of three offsets)
//@ stub: alloc::fmt::format -> empty String; core::str::from_utf8 -> byte-wise RFC 3629 validator for <= 3 bytes (std's validator is taken as correct; what is decided is which byte ranges arrow hands to it and the char-boundary checks)
#[kani::proof]
#[kani::unwind(8)]
#[kani::stub(alloc::fmt::format, stub_format)]
#[kani::stub(std::str::from_utf8, model_from_utf8)]
fn c09_validate_utf8_sliced_row() {
    utf8_row_model(1);
}
