//@ property: C09
//@ crate: arrow-data
//@ target: arrow-data/src/data.rs
// Child module of arrow-data/src/data.rs: the private typed validators ArrayData::validate_full runs for Utf8 /
// Binary, called directly (the DataType dispatcher itself is out of reach, DESIGN §5 C09). The ArrayData is a
// struct literal and is never dropped.
use super::*;

fn stub_format(_a: std::fmt::Arguments<'_>) -> String {
    String::new()
}

// byte-wise UTF-8 validator (RFC 3629) for b[s..e], e - s <= 4
fn valid_utf8_range(b: &[u8; 4], s: usize, e: usize) -> bool {
    let mut i = s;
    let mut steps = 0;
    while steps < 4 {
        if i < e {
            let c = b[i];
            let need = if c < 0x80 { 0 } else if c >= 0xC2 && c <= 0xDF { 1 } else if c >= 0xE0 && c <= 0xEF { 2 } else if c >= 0xF0 && c <= 0xF4 { 3 } else { return false };
            if i + need >= e && need > 0 {
                return false;
            }
            let mut k = 1;
            while k <= 3 {
                if k <= need {
                    let d = b[i + k];
                    let (lo, hi) = if k == 1 {
                        match c { 0xE0 => (0xA0, 0xBF), 0xED => (0x80, 0x9F), 0xF0 => (0x90, 0xBF), 0xF4 => (0x80, 0x8F), _ => (0x80, 0xBF) }
                    } else { (0x80, 0xBF) };
                    if d < lo || d > hi {
                        return false;
                    }
                }
                k += 1;
            }
            i += need + 1;
        }
        steps += 1;
    }
    true
}

//@ tier: quick
//@ timeout: 900
//@ functions: arrow_data::ArrayData::{validate_utf8::<i32>, validate_each_offset, typed_offsets, typed_buffer}
//@ bound: Utf8 ArrayData (struct literal) of ONE row at array offset 0 or 1 over three arbitrary i32 offsets and a values buffer of exactly 4 arbitrary bytes: accepted => the row's byte range is in bounds, ordered, and is valid UTF-8 on its own (so a first offset inside a multi-byte character is rejected); unwind 8
//@ stub: alloc::fmt::format -> empty String
#[kani::proof]
#[kani::unwind(8)]
#[kani::stub(alloc::fmt::format, stub_format)]
fn c09_validate_utf8_accepts_only_valid_rows() {
    let offs: [i32; 3] = kani::any();
    let vals: [u8; 4] = kani::any();
    let aoff: usize = kani::any();
    kani::assume(aoff <= 1);
    let d = ArrayData {
        data_type: DataType::Utf8,
        len: 1,
        offset: aoff,
        buffers: vec![Buffer::from_vec(offs.to_vec()), Buffer::from_vec(vals.to_vec())],
        child_data: vec![],
        nulls: None,
    };
    let r = d.validate_utf8::<i32>();
    let ok = r.is_ok();
    std::mem::forget(r);
    let (s, e) = (offs[aoff], offs[aoff + 1]);
    if ok {
        assert!(s >= 0 && s <= e && e <= 4, "accepted => offsets ordered and inside the values buffer");
        assert!(valid_utf8_range(&vals, s as usize, e as usize), "accepted => the row is valid UTF-8 by itself");
    }
    kani::cover!(ok && e - s == 3 && vals[s as usize] >= 0xE0, "a three-byte character accepted");
    kani::cover!(!ok && s == 1 && e == 4 && vals[0] >= 0xC2, "first offset inside a character rejected");
    kani::cover!(ok && aoff == 1 && s > 0);
    std::mem::forget(d);
}
