//@ property: C09
//@ crate: arrow-buffer
//@ target: arrow-buffer/src/buffer/run.rs
// Child module of arrow-buffer/src/buffer/run.rs.
use super::*;
use crate::ScalarBuffer;

fn stub_format(_a: std::fmt::Arguments<'_>) -> String {
    String::new()
}

// Arrow format: run ends strictly increasing and positive; the logical slice must lie inside the last run end
fn spec_valid(r: &[i16; 4], n: usize, off: usize, len: usize) -> bool {
    let mut ok = true;
    let mut i = 0;
    while i + 1 < 4 {
        if i + 1 < n && r[i] >= r[i + 1] {
            ok = false;
        }
        i += 1;
    }
    if len != 0 {
        if n == 0 {
            return false;
        }
        if r[0] <= 0 {
            ok = false;
        }
        let end = off.saturating_add(len);
        if end > i16::MAX as usize || (r[n - 1] as usize) < end {
            ok = false;
        }
    }
    ok
}

//@ tier: quick
//@ functions: arrow_buffer::RunEndBuffer::<i16>::{new, get_physical_index, len, offset}
//@ bound: 0..=4 arbitrary i16 run ends, logical offset/len 0..=40, satisfying the validity predicate: accepted; then get_physical_index(i) for every i < len is in range and run_ends[idx] > offset + i; unwind 7
//@ stub: alloc::fmt::format -> empty String
#[kani::proof]
#[kani::unwind(7)]
#[kani::stub(alloc::fmt::format, stub_format)]
fn c09_run_end_buffer_accepts_valid() {
    let r: [i16; 4] = kani::any();
    let n: usize = kani::any();
    let off: usize = kani::any();
    let len: usize = kani::any();
    kani::assume(n <= 4 && off <= 40 && len <= 40);
    kani::assume(spec_valid(&r, n, off, len));
    let reb = RunEndBuffer::new(ScalarBuffer::<i16>::from(r[..n].to_vec()), off, len);
    assert!(reb.len() == len && reb.offset() == off);
    let i: usize = kani::any();
    if i < len {
        let p = reb.get_physical_index(i);
        assert!(p < n, "physical index inside the run-end buffer");
        assert!((r[p] as usize) > off + i && (p == 0 || (r[p - 1] as usize) <= off + i), "the run containing logical index i");
    }
    kani::cover!(n == 4 && len > 3 && off > 0);
    kani::cover!(len == 0 && n > 0 && r[0] < 0, "zero-length slice over unchecked run ends");
    std::mem::forget(reb);
}

//@ tier: quick
//@ expect_panics: yes
//@ functions: arrow_buffer::RunEndBuffer::<i16>::new
//@ bound: 0..=4 arbitrary i16 run ends, logical offset and length EVERY usize, violating the predicate with len > 0 (not strictly increasing, non-positive first, slice beyond the last run end or beyond the run-end type's range, empty run ends): the constructor never returns; unwind 7
//@ stub: alloc::fmt::format -> empty String
#[kani::proof]
#[kani::unwind(7)]
#[kani::stub(alloc::fmt::format, stub_format)]
fn c09_run_end_buffer_rejects_invalid() {
    let r: [i16; 4] = kani::any();
    let n: usize = kani::any();
    let off: usize = kani::any();
    let len: usize = kani::any();
    // offset and length are EVERY usize: nothing in the constructor loops over them, and bounds that do not fit
    // the run-end type (offset + len > i16::MAX, or overflowing usize) must be rejected, not truncated
    kani::assume(n <= 4);
    kani::assume(!spec_valid(&r, n, off, len));
    kani::cover!(n == 1 && r[0] == i16::MAX && len > 0 && off.saturating_add(len) > i16::MAX as usize, "slice bound beyond the run-end type");
    kani::cover!(n == 3 && len > 0 && r[0] > 0 && r[0] < r[1] && r[1] < r[2], "only the slice bound is wrong");
    kani::cover!(n == 3 && r[1] == r[2], "duplicate run end");
    let reb = RunEndBuffer::new(ScalarBuffer::<i16>::from(r[..n].to_vec()), off, len);
    std::mem::forget(reb);
    assert!(false, "ACCEPTED-INVALID: RunEndBuffer::new returned for run ends that violate the format");
}
