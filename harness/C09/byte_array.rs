//@ property: C09
//@ crate: arrow-array
//@ target: arrow-array/src/array/byte_array.rs
// Child module of arrow-array/src/array/byte_array.rs.
use super::*;
use arrow_buffer::ScalarBuffer;
use crate::types::BinaryType;

fn stub_format(_a: std::fmt::Arguments<'_>) -> String {
    String::new()
}

//@ tier: quick
//@ functions: arrow_array::GenericByteArray::<BinaryType>::{try_new, value, len}, BinaryType::validate (ByteArrayType), OffsetBuffer::new_unchecked
//@ bound: 2-row Binary array from arbitrary monotone non-negative i32 offsets (0 <= o1 <= o2 <= 6) over a values buffer of 0..=4 arbitrary bytes, optional validity of length 1..=3: accepted iff the last offset is inside the values buffer and the validity length matches; after acceptance value(i) stays inside the buffer (Kani's pointer checks) and has the length the offsets say; unwind 8
//@ stub: alloc::fmt::format -> empty String
#[kani::proof]
#[kani::unwind(8)]
#[kani::stub(alloc::fmt::format, stub_format)]
fn c09_binary_try_new_sound() {
    let o1: i32 = kani::any();
    let o2: i32 = kani::any();
    kani::assume(0 <= o1 && o1 <= o2 && o2 <= 6);
    let vals: [u8; 4] = kani::any();
    let vlen: usize = kani::any();
    kani::assume(vlen <= 4);
    let offsets = unsafe { OffsetBuffer::new_unchecked(ScalarBuffer::from(vec![0i32, o1, o2])) };
    let values = Buffer::from_vec(vals[..vlen].to_vec());
    let with_nulls: bool = kani::any();
    let nlen: usize = kani::any();
    kani::assume(nlen >= 1 && nlen <= 3);
    let nulls = if with_nulls { Some(NullBuffer::new_valid(nlen)) } else { None };
    let r = GenericByteArray::<BinaryType>::try_new(offsets, values, nulls);
    match r {
        Ok(a) => {
            assert!((o2 as usize) <= vlen, "accepted => offsets inside the values buffer");
            assert!(!with_nulls || nlen == 2, "accepted => validity length matches");
            let i: usize = kani::any();
            kani::assume(i < 2);
            let v = a.value(i);
            assert!(v.len() == if i == 0 { o1 as usize } else { (o2 - o1) as usize }, "value length");
            let k: usize = kani::any();
            if k < v.len() {
                assert!(v[k] == vals[(if i == 0 { 0 } else { o1 as usize }) + k], "value bytes");
            }
            kani::cover!(o2 as usize == vlen && o1 < o2 && o1 > 0);
            std::mem::forget(a);
        }
        Err(e) => {
            assert!((o2 as usize) > vlen || (with_nulls && nlen != 2), "rejected only when malformed");
            std::mem::forget(e);
        }
    }
    kani::cover!((o2 as usize) > vlen, "offset beyond values rejected");
}
