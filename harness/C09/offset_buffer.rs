//@ property: C09
//@ crate: arrow-buffer
//@ target: arrow-buffer/src/buffer/offset.rs
// Child module of arrow-buffer/src/buffer/offset.rs.
use super::*;
use crate::ScalarBuffer;

fn stub_format(_a: std::fmt::Arguments<'_>) -> String {
    String::new()
}

fn spec_valid(raw: &[i32; 5], n: usize) -> bool {
    // Arrow format: at least one offset, first >= 0, monotonically non-decreasing
    if n == 0 {
        return false;
    }
    let mut ok = raw[0] >= 0;
    let mut i = 0;
    while i + 1 < 5 {
        if i + 1 < n && raw[i] > raw[i + 1] {
            ok = false;
        }
        i += 1;
    }
    ok
}

//@ tier: quick
//@ functions: arrow_buffer::OffsetBuffer::<i32>::new
//@ bound: 0..=5 arbitrary i32 offsets satisfying the format's validity predicate: the checked constructor accepts (no reachable panic) and preserves length; unwind 7
//@ stub: alloc::fmt::format -> empty String
#[kani::proof]
#[kani::unwind(7)]
#[kani::stub(alloc::fmt::format, stub_format)]
fn c09_offset_buffer_accepts_valid() {
    let raw: [i32; 5] = kani::any();
    let n: usize = kani::any();
    kani::assume(n <= 5);
    kani::assume(spec_valid(&raw, n));
    let sb = ScalarBuffer::<i32>::from(raw[..n].to_vec());
    let ob = OffsetBuffer::new(sb);
    assert!(ob.len() == n, "length preserved");
    kani::cover!(n == 5);
    kani::cover!(n == 1);
    std::mem::forget(ob);
}

//@ tier: quick
//@ expect_panics: yes
//@ functions: arrow_buffer::OffsetBuffer::<i32>::new
//@ bound: 0..=5 arbitrary i32 offsets VIOLATING the validity predicate (empty, negative first, one pair out of order): the constructor never returns (the statement after the call is unreachable); unwind 7
//@ stub: alloc::fmt::format -> empty String
#[kani::proof]
#[kani::unwind(7)]
#[kani::stub(alloc::fmt::format, stub_format)]
fn c09_offset_buffer_rejects_invalid() {
    let raw: [i32; 5] = kani::any();
    let n: usize = kani::any();
    kani::assume(n <= 5);
    kani::assume(!spec_valid(&raw, n));
    kani::cover!(n == 5 && raw[0] >= 0 && raw[0] <= raw[1] && raw[1] <= raw[2] && raw[2] <= raw[3], "only the last pair is out of order");
    kani::cover!(n == 0, "empty");
    let sb = ScalarBuffer::<i32>::from(raw[..n].to_vec());
    let ob = OffsetBuffer::new(sb);
    std::mem::forget(ob);
    assert!(false, "ACCEPTED-INVALID: OffsetBuffer::new returned for offsets that violate the format");
}

//@ tier: quick
//@ functions: arrow_buffer::OffsetBuffer::<i32>::from_lengths
//@ bound: exactly 3 lengths each < 2^29 (so the i32 total cannot overflow): result starts at 0, has n+1 monotone entries and entry k+1 - entry k = length k; unwind 7
//@ stub: alloc::fmt::format -> empty String
#[kani::proof]
#[kani::unwind(7)]
#[kani::stub(alloc::fmt::format, stub_format)]
fn c09_offset_buffer_from_lengths() {
    let lens: [usize; 3] = kani::any();
    let n: usize = 3; // concrete: a symbolic count grows the Vec by a symbolic amount (memory cap)
    kani::assume(lens[0] < (1 << 29) && lens[1] < (1 << 29) && lens[2] < (1 << 29));
    let ob = OffsetBuffer::<i32>::from_lengths(lens[..n].iter().copied());
    assert!(ob.len() == n + 1 && ob[0] == 0, "n+1 offsets starting at zero");
    let k: usize = kani::any();
    kani::assume(k < n);
    assert!(ob[k] >= 0 && (ob[k + 1] - ob[k]) as usize == lens[k], "difference = length");
    kani::cover!(n == 3 && lens[1] == 0);
    std::mem::forget(ob);
}
