//@ property: C13
//@ crate: arrow-cast
//@ target: arrow-cast/src/cast/decimal.rs
// Child module of arrow-cast/src/cast/decimal.rs.
use super::*;
use arrow_array::types::{Decimal32Type, Decimal64Type};

fn stub_format(_a: std::fmt::Arguments<'_>) -> String {
    String::new()
}

const P10: [i64; 19] = [
    1, 10, 100, 1_000, 10_000, 100_000, 1_000_000, 10_000_000, 100_000_000, 1_000_000_000, 10_000_000_000, 100_000_000_000,
    1_000_000_000_000, 10_000_000_000_000, 100_000_000_000_000, 1_000_000_000_000_000, 10_000_000_000_000_000,
    100_000_000_000_000_000, 1_000_000_000_000_000_000,
];

// exact rescale of v from scale `is` to scale `is + D`, round half away from zero when D < 0
fn exact<const D: i8>(v: i64) -> i64 {
    if D >= 0 {
        v * P10[D as usize]
    } else {
        let d = P10[(-D) as usize];
        let q = v / d;
        let r = v % d;
        if r.abs() * 2 >= d {
            if v >= 0 { q + 1 } else { q - 1 }
        } else {
            q
        }
    }
}

fn rescale_32_32<const IS: i8, const D: i8>() {
    let v: i32 = kani::any();
    let ip: u8 = kani::any();
    let op: u8 = kani::any();
    kani::assume(ip >= 1 && ip <= 9 && op >= 1 && op <= 9);
    kani::assume(IS <= ip as i8 && IS + D >= 0 && IS + D <= op as i8);
    // the input is a valid decimal of its declared precision
    kani::assume((v as i64).abs() < P10[ip as usize]);
    let got = rescale_decimal::<Decimal32Type, Decimal32Type>(v, ip, IS, op, IS + D);
    let e = exact::<D>(v as i64);
    let fits = e.abs() < P10[op as usize];
    match got {
        Some(r) => assert!(fits && r as i64 == e, "Some(r) => r is the exactly rescaled (rounded half away from zero) value and fits the output precision"),
        None => assert!(!fits, "None only when the rescaled value exceeds the output precision"),
    }
    kani::cover!(got.is_none(), "overflow reported");
    kani::cover!(got.is_some() && v < -1 && (D >= 0 || (v as i64 % P10[(-D).max(0) as usize]) != 0), "negative value");
    kani::cover!((ip as i8) + D <= op as i8 && D > 0 || (ip as i8) + D < op as i8 && D < 0 || D == 0, "infallible fast path selected");
}

macro_rules! rescale_instance {
    ($name:ident, $is:expr, $d:expr) => {
        //@ tier: quick
        //@ functions: arrow_cast::cast::decimal::{rescale_decimal, make_upscaler, make_downscaler, apply_rescaler}, Decimal32Type::is_valid_decimal_precision, validate_decimal_precision_and_scale
        //@ bound: Decimal32 -> Decimal32, concrete (input scale, scale delta) per instance, symbolic precisions 1..=9 on both sides, every i32 value valid for the input precision; reference = exact i64 arithmetic with round-half-away-from-zero
        //@ assume: the input value has at most `input_precision` digits (it is a valid decimal of its declared type)
        //@ stub: alloc::fmt::format -> empty String; Result::ok -> same value, the discarded ArrowError is leaked rather than dropped
        #[kani::proof]
        #[kani::unwind(4)]
        #[kani::stub(alloc::fmt::format, stub_format)]
        fn $name() {
            rescale_32_32::<{ $is }, { $d }>();
        }
    };
}

rescale_instance!(c13_rescale_d32_s0_same, 0, 0);
rescale_instance!(c13_rescale_d32_s0_up1, 0, 1);
rescale_instance!(c13_rescale_d32_s0_up3, 0, 3);
rescale_instance!(c13_rescale_d32_s2_up2, 2, 2);
rescale_instance!(c13_rescale_d32_s0_up8, 0, 8);
rescale_instance!(c13_rescale_d32_s1_down1, 1, -1);
rescale_instance!(c13_rescale_d32_s3_down2, 3, -2);

//@ tier: quick
//@ functions: arrow_cast::cast::decimal::rescale_decimal::<Decimal32Type, Decimal64Type>, <Decimal64Type, Decimal32Type>, DecimalCast::{from_decimal, to_i64}
//@ bound: cross-width rescale with concrete scale delta (+2 widening, -2 narrowing), symbolic precisions, every valid input value
//@ assume: the input value has at most `input_precision` digits
//@ stub: alloc::fmt::format -> empty String
#[kani::proof]
#[kani::unwind(4)]
#[kani::stub(alloc::fmt::format, stub_format)]
fn c13_rescale_cross_width() {
    let v: i32 = kani::any();
    let ip: u8 = kani::any();
    let op: u8 = kani::any();
    kani::assume(ip >= 1 && ip <= 9 && op >= 3 && op <= 18);
    kani::assume((v as i64).abs() < P10[ip as usize]);
    let got = rescale_decimal::<Decimal32Type, Decimal64Type>(v, ip, 1, op, 3);
    let e = (v as i64) * 100;
    let fits = e.abs() < P10[op as usize];
    match got {
        Some(r) => assert!(fits && r == e, "widening rescale exact"),
        None => assert!(!fits),
    }
    let w: i64 = kani::any();
    let ip2: u8 = kani::any();
    let op2: u8 = kani::any();
    kani::assume(ip2 >= 2 && ip2 <= 12 && op2 >= 1 && op2 <= 9);
    kani::assume(w > -P10[ip2 as usize] && w < P10[ip2 as usize]);
    let got2 = rescale_decimal::<Decimal64Type, Decimal32Type>(w, ip2, 2, op2, 0);
    let e2 = exact::<-2>(w);
    let fits2 = e2.abs() < P10[op2 as usize];
    match got2 {
        Some(r) => assert!(fits2 && r as i64 == e2, "narrowing rescale exact"),
        None => assert!(!fits2, "narrowing rescale reports overflow"),
    }
    kani::cover!(got.is_none());
    kani::cover!(got2.is_none() && w > 0);
    kani::cover!(got2.is_some() && w < -150);
}

// ---- array level: the safe (overflow -> null) and strict (overflow -> error) decimal casts on one row ----
fn decimal_cast_one_row<const IS: i8, const D: i8>() {
    use arrow_array::Array;
    let v: i32 = kani::any();
    let ip: u8 = kani::any();
    let op: u8 = kani::any();
    kani::assume(ip >= 1 && ip <= 9 && op >= 1 && op <= 9);
    kani::assume(IS <= ip as i8 && IS + D >= 0 && IS + D <= op as i8);
    kani::assume((v as i64).abs() < P10[ip as usize]);
    let array = PrimitiveArray::<Decimal32Type>::new(vec![v].into(), None);
    let e = exact::<D>(v as i64);
    let fits = e.abs() < P10[op as usize];
    let safe_opts = CastOptions { safe: true, ..Default::default() };
    let strict_opts = CastOptions { safe: false, ..Default::default() };
    let safe = if D >= 0 {
        convert_to_bigger_or_equal_scale_decimal::<Decimal32Type, Decimal32Type>(&array, ip, IS, op, IS + D, &safe_opts)
    } else {
        convert_to_smaller_scale_decimal::<Decimal32Type, Decimal32Type>(&array, ip, IS, op, IS + D, &safe_opts)
    };
    match &safe {
        Ok(out) => {
            assert!(out.len() == 1);
            if out.is_valid(0) {
                assert!(fits && out.value(0) as i64 == e, "safe cast: a non-null result is the exact rescaled value and fits the target precision");
            } else {
                assert!(!fits, "safe cast: null only when the value does not fit");
            }
        }
        Err(_) => assert!(false, "safe cast must not fail"),
    }
    let strict = if D >= 0 {
        convert_to_bigger_or_equal_scale_decimal::<Decimal32Type, Decimal32Type>(&array, ip, IS, op, IS + D, &strict_opts)
    } else {
        convert_to_smaller_scale_decimal::<Decimal32Type, Decimal32Type>(&array, ip, IS, op, IS + D, &strict_opts)
    };
    match &strict {
        Ok(out) => assert!(fits && out.is_valid(0) && out.value(0) as i64 == e, "strict cast: Ok only when the value fits, with the exact value"),
        Err(_) => assert!(!fits, "strict cast errs exactly where the safe cast yields null"),
    }
    kani::cover!(!fits && (op == 9 || D < 0), "overflow (at the maximum precision of the type when scaling up)");
    kani::cover!(fits && v < -1);
    std::mem::forget(safe);
    std::mem::forget(strict);
    std::mem::forget(array);
}

// Result::ok() as in core, except that the discarded error is leaked instead of dropped: the drop glue of
// ArrowError (Box<dyn Error>, io::Error) on a merged path is what exhausted the memory cap.  Same return value.
fn ok_without_drop<T, E>(r: Result<T, E>) -> Option<T> {
    match r {
        Ok(x) => Some(x),
        Err(e) => {
            std::mem::forget(e);
            None
        }
    }
}

macro_rules! decimal_cast_instance {
    ($name:ident, $is:expr, $d:expr) => {
        //@ tier: quick
        //@ timeout: 900
        //@ functions: arrow_cast::cast::decimal::{convert_to_bigger_or_equal_scale_decimal, convert_to_smaller_scale_decimal, apply_decimal_cast, make_upscaler, make_downscaler}, PrimitiveArray::{unary, unary_opt, try_unary}
        //@ bound: ONE-row Decimal32 array, concrete (input scale, scale delta) per instance, symbolic precisions 1..=9 (the type's maximum included) on both sides, every value valid for the input precision; safe mode: null iff the exact rescaled value does not fit, else that value; strict mode errs exactly where safe mode yields null
        //@ assume: the input value has at most `input_precision` digits
        //@ stub: alloc::fmt::format -> empty String; Result::ok -> same value, the discarded ArrowError is leaked rather than dropped
        #[kani::proof]
        #[kani::unwind(4)]
        #[kani::stub(alloc::fmt::format, stub_format)]
        #[kani::stub(core::result::Result::ok, ok_without_drop)]
        fn $name() {
            decimal_cast_one_row::<{ $is }, { $d }>();
        }
    };
}

decimal_cast_instance!(c13_decimal_cast_row_s0_up1, 0, 1);
decimal_cast_instance!(c13_decimal_cast_row_s2_down1, 2, -1);
