//@ property: C13
//@ crate: arrow-cast
//@ target: arrow-cast/src/cast/mod.rs
// Child module of arrow-cast/src/cast/mod.rs. num_cast is the single-value function both the safe
// (overflow -> null) and the strict (overflow -> error) numeric casts call, so one predicate decides both.
use super::*;

macro_rules! int_to_int {
    ($name:ident, $from:ty, $to:ty) => {
        //@ tier: quick
        //@ functions: arrow_cast::cast::num_cast
        //@ bound: full width source; Some(y) iff the value is representable in the target type, and then y denotes the same integer (compared in i128)
        #[kani::proof]
        fn $name() {
            let x: $from = kani::any();
            let wide = x as i128;
            let fits = wide >= <$to>::MIN as i128 && wide <= <$to>::MAX as i128;
            match num_cast::<$from, $to>(x) {
                Some(y) => assert!(fits && y as i128 == wide, "cast preserves the value"),
                None => assert!(!fits, "None only when not representable"),
            }
            kani::cover!(fits && x != 0 as $from);
            kani::cover!(!fits);
        }
    };
}

int_to_int!(c13_num_cast_i64_i32, i64, i32);
int_to_int!(c13_num_cast_i32_i8, i32, i8);
int_to_int!(c13_num_cast_u64_i64, u64, i64);
int_to_int!(c13_num_cast_i64_u8, i64, u8);
int_to_int!(c13_num_cast_i8_u64, i8, u64);
int_to_int!(c13_num_cast_u32_i16, u32, i16);
int_to_int!(c13_num_cast_i16_u16, i16, u16);
int_to_int!(c13_num_cast_u16_i8, u16, i8);
int_to_int!(c13_num_cast_i64_u32, i64, u32);

macro_rules! widening {
    ($name:ident, $from:ty, $to:ty) => {
        //@ tier: quick
        //@ functions: arrow_cast::cast::num_cast
        //@ bound: full width source; widening casts always succeed and preserve the value
        #[kani::proof]
        fn $name() {
            let x: $from = kani::any();
            match num_cast::<$from, $to>(x) {
                Some(y) => assert!(y as i128 == x as i128, "value preserved"),
                None => assert!(false, "widening cast must not fail"),
            }
            kani::cover!(x != 0 as $from);
            kani::cover!(x == <$from>::MIN);
        }
    };
}

widening!(c13_num_cast_i8_i64, i8, i64);
widening!(c13_num_cast_u8_i16, u8, i16);
widening!(c13_num_cast_i32_i64, i32, i64);
widening!(c13_num_cast_u32_u64, u32, u64);

//@ tier: quick
//@ functions: arrow_cast::cast::num_cast (f64 -> i32, f64 -> u8, f32 -> i16)
//@ bound: every f64/f32 bit pattern: Some(y) iff the value is finite and its truncation toward zero lies in the target range, and then y is that truncation; NaN and infinities give None
#[kani::proof]
fn c13_num_cast_float_to_int() {
    let x = f64::from_bits(kani::any());
    let r = num_cast::<f64, i32>(x);
    // truncation in range <=> MIN - 1 < x < MAX + 1 (both bounds exactly representable in f64)
    let fits = x > -2147483649.0 && x < 2147483648.0;
    match r {
        Some(y) => {
            assert!(fits, "Some only when the truncation fits");
            assert!((y as f64) == x.trunc(), "value is the truncation toward zero");
        }
        None => assert!(!fits, "None only when out of range, NaN or infinite"),
    }
    let u = num_cast::<f64, u8>(x);
    let fits_u = x > -1.0 && x < 256.0;
    match u {
        Some(y) => assert!(fits_u && (y as f64) == x.trunc()),
        None => assert!(!fits_u),
    }
    let z = f32::from_bits(kani::any());
    let s = num_cast::<f32, i16>(z);
    let fits_s = z > -32769.0 && z < 32768.0;
    match s {
        Some(y) => assert!(fits_s && (y as f32) == z.trunc()),
        None => assert!(!fits_s),
    }
    kani::cover!(x.is_nan());
    kani::cover!(r.is_some() && x < -0.5 && x > -1.0, "negative fraction truncates to zero");
    kani::cover!(u.is_none() && x > 255.5 && x < 256.5);
}

//@ tier: quick
//@ functions: arrow_cast::cast::num_cast (i64 -> f64, i32 -> f32, u64 -> f32)
//@ bound: full width integers: conversion to float always succeeds and equals the `as` conversion (round to nearest even); i32 -> f64 is exact
#[kani::proof]
fn c13_num_cast_int_to_float() {
    let a: i64 = kani::any();
    assert!(num_cast::<i64, f64>(a) == Some(a as f64));
    let b: i32 = kani::any();
    assert!(num_cast::<i32, f32>(b) == Some(b as f32));
    match num_cast::<i32, f64>(b) {
        Some(f) => assert!(f as i64 == b as i64, "i32 -> f64 is exact"),
        None => assert!(false),
    }
    let c: u64 = kani::any();
    assert!(num_cast::<u64, f32>(c) == Some(c as f32));
    kani::cover!(a > (1 << 53), "not exactly representable");
    kani::cover!(b < 0);
}
