//@ property: C07
//@ crate: parquet
//@ target: parquet/src/bloom_filter/mod.rs
// Child module of parquet/src/bloom_filter/mod.rs.
use super::*;

// Block::mask(x) multiplies x by eight 32-bit salts; insert-then-check computes it several times and SAT has to
// re-prove the equality of the multiplier circuits (no verdict in 300 s). The membership obligations therefore
// replace `mask` by an ABSTRACTION of an arbitrary deterministic function with the one property the filter
// needs (exactly one bit per word): two symbolic masks, selected by comparing the argument with the two hashes
// the harness uses. The real `mask` is decided separately (c07_block_mask_one_bit_per_word).
static mut MASK_H: u32 = 0;
static mut MASK_OF_H: [u32; 8] = [0; 8];
static mut MASK_OF_OTHER: [u32; 8] = [0; 8];
fn abstract_mask(x: u32) -> Block {
    unsafe { if x == MASK_H { Block(MASK_OF_H) } else { Block(MASK_OF_OTHER) } }
}
fn any_one_hot_block() -> [u32; 8] {
    let sh: [u8; 8] = kani::any();
    let mut m = [0u32; 8];
    let mut i = 0;
    while i < 8 {
        kani::assume(sh[i] < 32);
        m[i] = 1u32 << sh[i];
        i += 1;
    }
    m
}
fn setup_abstract_mask(h: u32) {
    unsafe {
        MASK_H = h;
        MASK_OF_H = any_one_hot_block();
        MASK_OF_OTHER = any_one_hot_block();
    }
}

//@ tier: quick
//@ functions: parquet::bloom_filter::Block::mask
//@ bound: every 32-bit hash: the real mask sets exactly one bit in each of the eight words (the only property of the salted multiplication the membership obligations rely on); unwind 10
#[kani::proof]
#[kani::unwind(10)]
fn c07_block_mask_one_bit_per_word() {
    let h: u32 = kani::any();
    let m = Block::mask(h);
    let i: usize = kani::any();
    kani::assume(i < 8);
    assert!(m[i].count_ones() == 1, "exactly one bit per word");
    kani::cover!(m[i] == 1 << 31);
    kani::cover!(m[i] == 1);
}

//@ tier: quick
//@ functions: parquet::bloom_filter::Block::{insert, check}
//@ bound: one block with arbitrary contents, arbitrary 32-bit hashes h and g: after insert(h), check(h); a later insert(g) keeps check(h); insert only sets bits; unwind 10
//@ stub: Block::mask -> arbitrary deterministic one-bit-per-word function (see above)
#[kani::proof]
#[kani::unwind(10)]
#[kani::stub(Block::mask, abstract_mask)]
fn c07_block_insert_then_check() {
    let mut blk = Block(kani::any());
    let h: u32 = kani::any();
    let g: u32 = kani::any();
    setup_abstract_mask(h);
    let i: usize = kani::any();
    kani::assume(i < 8);
    let before = blk[i];
    blk.insert(h);
    assert!(blk.check(h), "no false negative right after insert");
    assert!(blk[i] & before == before, "insert only sets bits");
    assert!((blk[i] ^ before).count_ones() <= 1, "at most one new bit per word");
    blk.insert(g);
    assert!(blk.check(h) && blk.check(g), "later inserts keep earlier members");
    kani::cover!(before == 0 && blk[i] != 0);
    kani::cover!(h != g);
}

//@ tier: quick
//@ functions: parquet::bloom_filter::Block::check, BitOr / BitOrAssign for Block
//@ bound: arbitrary block, arbitrary extra bits OR-ed in (what later inserts and fold_n do), arbitrary hash: check(h) is monotone - once true it stays true; unwind 10
//@ stub: Block::mask -> arbitrary deterministic one-bit-per-word function
#[kani::proof]
#[kani::unwind(10)]
#[kani::stub(Block::mask, abstract_mask)]
fn c07_block_check_is_monotone() {
    let blk = Block(kani::any());
    let extra = Block(kani::any());
    let h: u32 = kani::any();
    setup_abstract_mask(h);
    let was = blk.check(h);
    let merged = blk | extra;
    let mut assigned = blk;
    assigned |= extra;
    let i: usize = kani::any();
    kani::assume(i < 8);
    assert!(merged[i] == blk[i] | extra[i] && assigned[i] == merged[i], "OR is word-wise");
    if was {
        assert!(merged.check(h), "members survive OR-ing more bits in");
    }
    kani::cover!(was);
    kani::cover!(!was && merged.check(h), "false positive created by merging");
}

//@ tier: quick
//@ functions: parquet::bloom_filter::Sbbf::hash_to_block_index
//@ bound: every u64 hash, block counts 2,4,8,16,1024, fold exponent k with 2^k <= len: index in the folded filter = index >> k (the arithmetic fact fold relies on)
#[kani::proof]
#[kani::unwind(4)]
fn c07_sbbf_index_fold_lemma() {
    let h: u64 = kani::any();
    let le: u32 = kani::any();
    kani::assume(le >= 1 && le <= 10);
    let k: u32 = kani::any();
    kani::assume(k >= 1 && k <= le);
    let len = 1u64 << le;
    let idx = |n: u64| (((h >> 32).saturating_mul(n)) >> 32) as usize;
    assert!(idx(len) < len as usize, "index in range");
    assert!(idx(len) >> k == idx(len >> k), "folding maps a block to index >> k");
    // tie the closed form to the real method on a real filter of 4 blocks
    let f = Sbbf(vec![Block::ZERO; 4]);
    assert!(f.hash_to_block_index(h) == idx(4), "method = closed form");
    std::mem::forget(f);
    kani::cover!(k == le);
    kani::cover!(idx(len) == (len as usize) - 1);
}

//@ tier: quick
//@ functions: parquet::bloom_filter::Sbbf::{insert_hash, check_hash, fold_n, hash_to_block_index}
//@ bound: 4 arbitrary blocks, one arbitrary 64-bit hash inserted, then fold_n(1) or fold_n(2): the hash is still found (no false negative after folding); per-index: folded block = OR of its group; unwind 10
//@ stub: Block::mask -> arbitrary deterministic one-bit-per-word function
#[kani::proof]
#[kani::unwind(10)]
#[kani::stub(Block::mask, abstract_mask)]
fn c07_sbbf_fold_keeps_members() {
    let b0 = Block(kani::any());
    let b1 = Block(kani::any());
    let b2 = Block(kani::any());
    let b3 = Block(kani::any());
    let mut f = Sbbf(vec![b0, b1, b2, b3]);
    let h: u64 = kani::any();
    setup_abstract_mask(h as u32);
    f.insert_hash(h);
    assert!(f.check_hash(h), "member found before folding");
    let pre = [f.0[0], f.0[1], f.0[2], f.0[3]];
    let folds: u32 = kani::any();
    kani::assume(folds >= 1 && folds <= 2);
    f.fold_n(folds);
    assert!(f.0.len() == 4 >> folds, "block count halves per fold");
    assert!(f.check_hash(h), "member found after folding");
    let w: usize = kani::any();
    kani::assume(w < 8);
    if folds == 1 {
        assert!(f.0[0][w] == pre[0][w] | pre[1][w] && f.0[1][w] == pre[2][w] | pre[3][w], "pairwise OR");
    } else {
        assert!(f.0[0][w] == pre[0][w] | pre[1][w] | pre[2][w] | pre[3][w], "group OR");
    }
    std::mem::forget(f);
    kani::cover!(folds == 2);
    kani::cover!(folds == 1 && (h >> 62) == 3, "member in the last block");
}
