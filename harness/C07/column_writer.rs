//@ property: C07
//@ crate: parquet
//@ target: parquet/src/column/writer/mod.rs
// Child module of parquet/src/column/writer/mod.rs (reaches the private statistics helpers).
use super::*;

fn stub_format(_a: std::fmt::Arguments<'_>) -> String {
    String::new()
}

// value denoted by a big-endian two's complement byte string (<= 7 bytes) as i64 (Parquet DECIMAL on BYTE_ARRAY)
fn be_value(b: &[u8]) -> i64 {
    let mut v: i64 = if b[0] & 0x80 != 0 { -1 } else { 0 };
    let mut i = 0;
    while i < b.len() {
        v = (v << 8) | (b[i] as i64);
        i += 1;
    }
    v
}

fn decimal_compare<const N: usize>() {
    let a: [u8; N] = kani::any();
    let b: [u8; N] = kani::any();
    let la: usize = kani::any();
    let lb: usize = kani::any();
    kani::assume(la >= 1 && la <= N && lb >= 1 && lb <= N);
    let a = &a[..la];
    let b = &b[..lb];
    let got = compare_greater_byte_array_decimals(a, b);
    assert!(got == (be_value(a) > be_value(b)), "decimal byte-array order = order of the denoted integers");
    kani::cover!(la != lb && got, "different lengths, greater");
    kani::cover!(la == lb && !got && a[0] == b[0], "same length, same lead byte");
    kani::cover!(la > lb && a[0] == 0xFF && b[0] & 0x80 != 0, "longer operand is sign-extended negative");
}

//@ tier: quick
//@ functions: parquet::column::writer::compare_greater_byte_array_decimals
//@ bound: all byte strings of length 1..=3 on each side; order oracle = sign-extended big-endian integer (Parquet spec); unwind 6
#[kani::proof]
#[kani::unwind(6)]
fn c07_decimal_bytes_compare_len3() {
    decimal_compare::<3>();
}

//@ tier: thorough
//@ functions: parquet::column::writer::compare_greater_byte_array_decimals
//@ bound: all byte strings of length 1..=5 on each side; unwind 8
#[kani::proof]
#[kani::unwind(8)]
fn c07_decimal_bytes_compare_wide5() {
    decimal_compare::<5>();
}

//@ tier: quick
//@ functions: parquet::column::writer::increment
//@ bound: all byte strings of length 1..=4: Some(r) => r has the same length and r > v bytewise; None <=> all bytes 0xFF; unwind 8
#[kani::proof]
#[kani::unwind(8)]
fn c07_increment_is_strict_upper_bound() {
    let d: [u8; 4] = kani::any();
    let l: usize = kani::any();
    kani::assume(l >= 1 && l <= 4);
    let v = d[..l].to_vec();
    match increment(v) {
        Some(r) => {
            assert!(r.len() == l, "same length");
            assert!(&r[..] > &d[..l], "strictly greater");
            kani::cover!(r[l - 1] == 0 && l > 1, "carry propagated");
            std::mem::forget(r);
        }
        None => {
            let mut i = 0;
            while i < 4 {
                assert!(i >= l || d[i] == 0xFF, "None only for all-0xFF");
                i += 1;
            }
        }
    }
    kani::cover!(d[0] == 0xFF && l > 1 && d[1] != 0xFF);
}

fn descr_i32(ct: crate::basic::ConvertedType) -> ColumnDescriptor {
    use crate::basic::Type as PhysicalType;
    use crate::schema::types::{ColumnPath, Type};
    use std::sync::Arc;
    let tpe = Type::primitive_type_builder("c", PhysicalType::INT32).with_converted_type(ct).build().unwrap();
    ColumnDescriptor::new(Arc::new(tpe), 0, 0, ColumnPath::from("c"))
}

//@ tier: quick
//@ functions: parquet::column::writer::{update_min, update_max, update_stat, compare_greater, compare_greater_unsigned_int, is_nan}
//@ bound: inductive step of the running min/max, INT32 column with converted type UINT_32 (unsigned sort order), real ColumnDescriptor; full-width values
//@ assume: invariant: the current (min, max) bound a witness value w already seen, in the column's (unsigned) order
//@ stub: alloc::fmt::format -> empty String
#[kani::proof]
#[kani::unwind(6)]
#[kani::stub(alloc::fmt::format, stub_format)]
fn c07_minmax_step_uint32() {
    let descr = descr_i32(crate::basic::ConvertedType::UINT_32);
    let w: i32 = kani::any();
    let lo: i32 = kani::any();
    let hi: i32 = kani::any();
    kani::assume((lo as u32) <= (w as u32) && (w as u32) <= (hi as u32));
    let v: i32 = kani::any();
    let mut min = Some(lo);
    let mut max = Some(hi);
    update_min(&descr, &v, &mut min);
    update_max(&descr, &v, &mut max);
    let (mn, mx) = (min.unwrap() as u32, max.unwrap() as u32);
    assert!(mn <= (w as u32) && (w as u32) <= mx, "earlier value stays inside");
    assert!(mn <= (v as u32) && (v as u32) <= mx, "new value inside");
    assert!(mn == (lo as u32) || mn == (v as u32), "min attained");
    assert!(mx == (hi as u32) || mx == (v as u32), "max attained");
    std::mem::forget(descr);
    kani::cover!(v < 0 && lo > 0 && mx == v as u32, "negative i32 is a large unsigned");
}

//@ tier: quick
//@ functions: parquet::column::writer::{update_min, update_max, compare_greater}
//@ bound: inductive step, INT32 column with signed order (converted type INT_32); full width
//@ assume: invariant: lo <= w <= hi (signed)
//@ stub: alloc::fmt::format -> empty String
#[kani::proof]
#[kani::unwind(6)]
#[kani::stub(alloc::fmt::format, stub_format)]
fn c07_minmax_step_int32() {
    let descr = descr_i32(crate::basic::ConvertedType::INT_32);
    let w: i32 = kani::any();
    let lo: i32 = kani::any();
    let hi: i32 = kani::any();
    kani::assume(lo <= w && w <= hi);
    let v: i32 = kani::any();
    let mut min = Some(lo);
    let mut max = Some(hi);
    update_min(&descr, &v, &mut min);
    update_max(&descr, &v, &mut max);
    let (mn, mx) = (min.unwrap(), max.unwrap());
    assert!(mn <= w && w <= mx && mn <= v && v <= mx, "bounds hold");
    assert!((mn == lo || mn == v) && (mx == hi || mx == v), "attained");
    let mut none_min: Option<i32> = None;
    update_min(&descr, &v, &mut none_min);
    assert!(none_min == Some(v), "first value initialises the statistic");
    std::mem::forget(descr);
    kani::cover!(v < lo);
    kani::cover!(v > hi);
}

//@ tier: quick
//@ functions: parquet::column::writer::{update_min, update_max, compare_greater, is_nan} for DOUBLE
//@ bound: inductive step on f64 bit patterns (all NaNs, infinities, signed zeros): NaN never replaces a non-NaN bound; non-NaN values are bounded under IEEE totalOrder
//@ assume: invariant: min, max non-NaN and min <= w <= max in totalOrder, for a non-NaN witness w
//@ stub: alloc::fmt::format -> empty String
#[kani::proof]
#[kani::unwind(10)]
#[kani::stub(alloc::fmt::format, stub_format)]
fn c07_minmax_step_double() {
    use crate::basic::Type as PhysicalType;
    use crate::schema::types::{ColumnPath, Type};
    use std::sync::Arc;
    let tpe = Type::primitive_type_builder("c", PhysicalType::DOUBLE).build().unwrap();
    let descr = ColumnDescriptor::new(Arc::new(tpe), 0, 0, ColumnPath::from("c"));
    let key = |x: f64| {
        let b = x.to_bits() as i64;
        b ^ (((b >> 63) as u64) >> 1) as i64
    };
    let w = f64::from_bits(kani::any());
    let lo = f64::from_bits(kani::any());
    let hi = f64::from_bits(kani::any());
    kani::assume(!w.is_nan() && !lo.is_nan() && !hi.is_nan());
    kani::assume(key(lo) <= key(w) && key(w) <= key(hi));
    let v = f64::from_bits(kani::any());
    let mut min = Some(lo);
    let mut max = Some(hi);
    update_min(&descr, &v, &mut min);
    update_max(&descr, &v, &mut max);
    let (mn, mx) = (min.unwrap(), max.unwrap());
    assert!(!mn.is_nan() && !mx.is_nan(), "NaN never becomes a bound once a number was seen");
    assert!(key(mn) <= key(w) && key(w) <= key(mx), "earlier value inside");
    if !v.is_nan() {
        assert!(key(mn) <= key(v) && key(v) <= key(mx), "new value inside");
    }
    // all-NaN prefix then a number: the number takes over both bounds
    let n = f64::from_bits(kani::any());
    kani::assume(n.is_nan());
    let mut min2 = Some(n);
    let mut max2 = Some(n);
    update_min(&descr, &v, &mut min2);
    update_max(&descr, &v, &mut max2);
    if !v.is_nan() {
        assert!(min2.unwrap().to_bits() == v.to_bits() && max2.unwrap().to_bits() == v.to_bits(), "number replaces NaN");
    }
    std::mem::forget(descr);
    kani::cover!(v.is_nan());
    kani::cover!(v == 0.0 && lo == 0.0 && v.to_bits() != lo.to_bits() && mn.to_bits() == v.to_bits(), "-0.0 below +0.0");
}

// ---- UTF-8 truncation: inputs generated from symbolic chars (never filtered through from_utf8) ----
fn valid_utf8(b: &[u8], n: usize) -> bool {
    // byte-wise validator (RFC 3629), n <= 12
    let mut i = 0;
    while i < n {
        let c = b[i];
        let need = if c < 0x80 { 0 } else if c >= 0xC2 && c <= 0xDF { 1 } else if c >= 0xE0 && c <= 0xEF { 2 } else if c >= 0xF0 && c <= 0xF4 { 3 } else { return false };
        if need > 0 && i + need >= n {
            return false;
        }
        let mut k = 1;
        while k <= need {
            let d = b[i + k];
            let (lo, hi) = if k == 1 {
                match c { 0xE0 => (0xA0, 0xBF), 0xED => (0x80, 0x9F), 0xF0 => (0x90, 0xBF), 0xF4 => (0x80, 0x8F), _ => (0x80, 0xBF) }
            } else { (0x80, 0xBF) };
            if d < lo || d > hi {
                return false;
            }
            k += 1;
        }
        i += need + 1;
    }
    true
}

//@ tier: quick
//@ functions: parquet::column::writer::{truncate_utf8, truncate_and_increment_utf8, increment_utf8}
//@ bound: strings of 2 symbolic chars (every Unicode scalar value, every UTF-8 width: 2..=8 bytes), truncation length 1..len-1: truncate_utf8 = valid UTF-8 prefix <= length bytes; truncate_and_increment_utf8 = None or valid UTF-8 r with r > data bytewise and r.len() <= length; unwind 10
#[kani::proof]
#[kani::unwind(10)]
fn c07_truncate_utf8_two_chars() {
    let c1: char = kani::any();
    let c2: char = kani::any();
    let mut buf = [0u8; 8];
    let n1 = c1.encode_utf8(&mut buf).len();
    let n2 = c2.encode_utf8(&mut buf[n1..]).len();
    let n = n1 + n2;
    // SAFETY: two encode_utf8 outputs are valid UTF-8
    let s = unsafe { std::str::from_utf8_unchecked(&buf[..n]) };
    let length: usize = kani::any();
    kani::assume(length >= 1 && length < n);
    if let Some(t) = truncate_utf8(s, length) {
        assert!(t.len() >= 1 && t.len() <= length, "prefix length within limit");
        assert!(t.len() == n1, "longest char-boundary prefix that fits");
        let j: usize = kani::any();
        kani::assume(j < t.len());
        assert!(t[j] == buf[j], "prefix bytes");
        std::mem::forget(t);
    } else {
        assert!(n1 > length, "None only if the first char does not fit");
    }
    match truncate_and_increment_utf8(s, length) {
        Some(r) => {
            assert!(r.len() >= 1 && r.len() <= length, "upper bound fits the limit");
            let mut rb = [0u8; 8];
            let mut k = 0;
            while k < 8 {
                if k < r.len() {
                    rb[k] = r[k];
                }
                k += 1;
            }
            assert!(valid_utf8(&rb, r.len()), "upper bound is valid UTF-8");
            // strictly greater than data, bytewise (r is shorter than data, so it must differ inside r.len())
            let mut ord = std::cmp::Ordering::Equal;
            let mut k = 0;
            while k < 8 {
                if ord == std::cmp::Ordering::Equal && k < r.len() {
                    ord = rb[k].cmp(&buf[k]);
                }
                k += 1;
            }
            assert!(ord == std::cmp::Ordering::Greater, "upper bound > data");
            kani::cover!(n1 == 3 && r.len() == 3, "three-byte char incremented");
            std::mem::forget(r);
        }
        None => {}
    }
    kani::cover!(n1 == 4 && n2 == 4 && length == 7);
    kani::cover!(n1 == 1 && length >= 1);
    kani::cover!(c1 == '\u{D7FF}', "last char before the surrogate gap");
}

fn descr_flba_decimal(legacy_converted_type_only: bool) -> ColumnDescriptor {
    use crate::basic::{ConvertedType, LogicalType, Type as PhysicalType};
    use crate::schema::types::{ColumnPath, Type};
    use std::sync::Arc;
    let b = Type::primitive_type_builder("d", PhysicalType::BYTE_ARRAY).with_precision(4).with_scale(0);
    let b = if legacy_converted_type_only {
        b.with_converted_type(ConvertedType::DECIMAL)
    } else {
        b.with_logical_type(Some(LogicalType::decimal(0, 4)))
    };
    let tpe = b.build().unwrap();
    ColumnDescriptor::new(Arc::new(tpe), 0, 0, ColumnPath::from("d"))
}

fn minmax_step_decimal_flba(legacy: bool) {
    let descr = descr_flba_decimal(legacy);
    // values live in leaked (static) memory: Bytes::from_static has a trivial clone, while the Vec-backed Bytes
    // vtable tags its data pointer with bit operations that exhaust the memory cap in the pointer encoding
    let be = |x: i16| {
        let leaked: &'static [u8; 2] = Box::leak(Box::new(x.to_be_bytes()));
        ByteArray::from(bytes::Bytes::from_static(&leaked[..]))
    };
    let val = |f: &ByteArray| i16::from_be_bytes([f.data()[0], f.data()[1]]);
    let w: i16 = kani::any();
    let lo: i16 = kani::any();
    let hi: i16 = kani::any();
    kani::assume(lo <= w && w <= hi);
    let v: i16 = kani::any();
    let mut min = Some(be(lo));
    let mut max = Some(be(hi));
    let nv = be(v);
    update_min(&descr, &nv, &mut min);
    update_max(&descr, &nv, &mut max);
    let (mn, mx) = (val(min.as_ref().unwrap()), val(max.as_ref().unwrap()));
    assert!(mn <= w && w <= mx && mn <= v && v <= mx, "min/max bound every value under the SIGNED decimal order");
    assert!((mn == lo || mn == v) && (mx == hi || mx == v), "attained");
    kani::cover!(v < 0 && lo >= 0 && mn == v, "a negative value becomes the minimum");
    kani::cover!(v >= 0 && hi < 0 && mx == v, "a non-negative value becomes the maximum");
    std::mem::forget(min);
    std::mem::forget(max);
    std::mem::forget(nv);
    std::mem::forget(descr);
}

//@ tier: quick
//@ timeout: 600
//@ functions: parquet::column::writer::{update_min, update_max, compare_greater, compare_greater_byte_array_decimals} for BYTE_ARRAY decimals declared by LogicalType::Decimal
//@ bound: inductive step of the running min/max on a BYTE_ARRAY DECIMAL(4,0) column with two-byte values (real ColumnDescriptor, logical type annotation; the FIXED_LEN_BYTE_ARRAY variant goes through the same match arm, but its type builder computes the maximum precision with f64 powi/log10, which the bit-precise float model cannot finish), every 16-bit two's-complement value: bounds hold under the signed order; unwind 8
//@ assume: invariant: lo <= w <= hi (signed) for a witness value already seen
//@ stub: alloc::fmt::format -> empty String
#[kani::proof]
#[kani::unwind(8)]
#[kani::stub(alloc::fmt::format, stub_format)]
fn c07_minmax_step_decimal_bytes_logical() {
    minmax_step_decimal_flba(false);
}

//@ tier: quick
//@ timeout: 600
//@ functions: parquet::column::writer::{update_min, update_max, compare_greater} for BYTE_ARRAY decimals declared by the legacy ConvertedType::DECIMAL only
//@ bound: as above with the column annotated by the legacy converted type alone (files written by older writers); unwind 8
//@ assume: invariant: lo <= w <= hi (signed)
//@ stub: alloc::fmt::format -> empty String
#[kani::proof]
#[kani::unwind(8)]
#[kani::stub(alloc::fmt::format, stub_format)]
fn c07_minmax_step_decimal_bytes_converted() {
    minmax_step_decimal_flba(true);
}

fn descr_f16() -> ColumnDescriptor {
    use crate::basic::{LogicalType, Type as PhysicalType};
    use crate::schema::types::{ColumnPath, Type};
    use std::sync::Arc;
    let tpe = Type::primitive_type_builder("h", PhysicalType::FIXED_LEN_BYTE_ARRAY)
        .with_length(2)
        .with_logical_type(Some(LogicalType::Float16))
        .build()
        .unwrap();
    ColumnDescriptor::new(Arc::new(tpe), 0, 0, ColumnPath::from("h"))
}

//@ tier: quick
//@ timeout: 600
//@ functions: parquet::column::writer::{is_nan, update_min, update_max, compare_greater, compare_greater_f16} for FIXED_LEN_BYTE_ARRAY(2) Float16 columns
//@ bound: every 16-bit pattern as a Float16 value of a real Float16 ColumnDescriptor: is_nan is true exactly for the IEEE NaNs (exponent all ones AND non-zero mantissa — infinities are numbers); one min/max step with an arbitrary non-NaN value and arbitrary non-NaN bounds keeps min <= value <= max in IEEE totalOrder and a NaN value never replaces a bound; unwind 8
//@ stub: alloc::fmt::format -> empty String
#[kani::proof]
#[kani::unwind(8)]
#[kani::stub(alloc::fmt::format, stub_format)]
fn c07_float16_nan_and_order() {
    let descr = descr_f16();
    let mk = |bits: u16| {
        let leaked: &'static [u8; 2] = Box::leak(Box::new(bits.to_le_bytes()));
        FixedLenByteArray::from(ByteArray::from(bytes::Bytes::from_static(&leaked[..])))
    };
    let bits_of = |f: &FixedLenByteArray| u16::from_le_bytes([f.data()[0], f.data()[1]]);
    let is_nan_bits = |b: u16| (b & 0x7C00) == 0x7C00 && (b & 0x03FF) != 0;
    // sign-magnitude key of IEEE totalOrder for non-NaN halves
    let key = |b: u16| if b & 0x8000 != 0 { -((b & 0x7FFF) as i32) - 1 } else { (b & 0x7FFF) as i32 };
    let v: u16 = kani::any();
    let val = mk(v);
    let info = descr.self_type().get_basic_info();
    assert!(is_nan(info, &val) == is_nan_bits(v), "NaN = exponent all ones and non-zero mantissa; infinities are not NaN");
    let lo: u16 = kani::any();
    let hi: u16 = kani::any();
    kani::assume(!is_nan_bits(lo) && !is_nan_bits(hi) && key(lo) <= key(hi));
    let mut min = Some(mk(lo));
    let mut max = Some(mk(hi));
    update_min(&descr, &val, &mut min);
    update_max(&descr, &val, &mut max);
    let (mn, mx) = (bits_of(min.as_ref().unwrap()), bits_of(max.as_ref().unwrap()));
    if is_nan_bits(v) {
        assert!(mn == lo && mx == hi, "a NaN never becomes a bound");
    } else {
        assert!(key(mn) <= key(v) && key(v) <= key(mx), "bounds contain the value in totalOrder");
        assert!((mn == lo || mn == v) && (mx == hi || mx == v), "attained");
    }
    kani::cover!(v == 0x7C00 && mx == 0x7C00 && hi != 0x7C00, "+Inf becomes the maximum");
    kani::cover!(v == 0xFC00 && mn == 0xFC00 && lo != 0xFC00, "-Inf becomes the minimum");
    kani::cover!(is_nan_bits(v));
    std::mem::forget(min);
    std::mem::forget(max);
    std::mem::forget(val);
    std::mem::forget(descr);
}
