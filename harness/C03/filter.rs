//@ property: C03
//@ crate: arrow-select
//@ target: arrow-select/src/filter.rs
// Child module of arrow-select/src/filter.rs. The kernels are entered one call below the &dyn Array
// dispatcher (filter_native / filter_bits / filter_nulls are what filter_primitive and filter_boolean run),
// with every IterationStrategy forced through a FilterPredicate struct literal.
use super::*;
use arrow_buffer::Buffer;

fn stub_format(_a: std::fmt::Arguments<'_>) -> String {
    String::new()
}

const N: usize = 4;

fn predicate(mask: u8, poff: usize, strategy: u8) -> FilterPredicate {
    // predicate bits live at a symbolic bit offset inside a 2-byte buffer so the iterators see unaligned masks
    let word = (mask as u16) << poff;
    let pred = BooleanArray::new(BooleanBuffer::new(Buffer::from_vec(word.to_le_bytes().to_vec()), poff, N), None);
    let count = (mask & 0x0F).count_ones() as usize;
    let strategy = match strategy {
        0 => IterationStrategy::SlicesIterator,
        1 => IterationStrategy::IndexIterator,
        2 => IterationStrategy::Slices(SlicesIterator::new(&pred).collect()),
        _ => IterationStrategy::Indices(IndexIterator::new(&pred, count).collect()),
    };
    FilterPredicate { filter: pred, count, strategy }
}

// source row of the k-th selected row
fn kth(mask: u8, k: usize) -> usize {
    let mut seen = 0usize;
    let mut src = 0usize;
    let mut j = 0;
    while j < N {
        if (mask >> j) & 1 == 1 {
            if seen == k {
                src = j;
            }
            seen += 1;
        }
        j += 1;
    }
    src
}

fn filter_native_model(strategy: u8, poff: usize) {
    let vals: [i16; N] = kani::any();
    let mask: u8 = kani::any();
    kani::assume(mask < 16 && mask != 0 && mask != 15);
    let p = predicate(mask, poff, strategy);
    let out = filter_native::<i16>(&vals, &p);
    let n_out = mask.count_ones() as usize;
    assert!(out.len() == n_out * 2, "output has exactly the selected rows");
    let k: usize = kani::any();
    kani::assume(k < n_out);
    let got = out.typed_data::<i16>()[k];
    assert!(got == vals[kth(mask, k)], "output row k is the k-th selected input row");
    kani::cover!(mask == 0b1010, "alternating");
    kani::cover!(mask == 0b0110, "one run in the middle");
    std::mem::forget(out);
    std::mem::forget(p);
}

//@ tier: quick
//@ functions: arrow_select::filter::{filter_native::<i16>, SlicesIterator::{new, next}}
//@ bound: 4 rows of i16, every non-trivial predicate mask (all/none are routed elsewhere by the dispatcher), predicate at bit offset 6 (the 4 predicate bits straddle a byte boundary; a symbolic offset gave no verdict in 300 s), lazy SlicesIterator strategy; per-index on the output row; unwind 8
//@ stub: alloc::fmt::format -> empty String
#[kani::proof]
#[kani::unwind(8)]
#[kani::stub(alloc::fmt::format, stub_format)]
fn c03_filter_native_slices_iterator() {
    filter_native_model(0, 6);
}

//@ tier: quick
//@ functions: arrow_select::filter::{filter_native::<i16>, IndexIterator::{new, next}}, MutableBuffer::from_trusted_len_iter
//@ bound: 4 rows, every non-trivial mask, predicate at bit offset 6, lazy IndexIterator strategy; unwind 8
//@ stub: alloc::fmt::format -> empty String
#[kani::proof]
#[kani::unwind(8)]
#[kani::stub(alloc::fmt::format, stub_format)]
fn c03_filter_native_index_iterator() {
    filter_native_model(1, 6);
}

//@ tier: quick
//@ functions: arrow_select::filter::{filter_native::<i16>, FilterBuilder::optimize (Slices)}
//@ bound: 4 rows, every non-trivial mask, predicate at bit offset 6, materialised Slices strategy; unwind 8
//@ stub: alloc::fmt::format -> empty String
#[kani::proof]
#[kani::unwind(8)]
#[kani::stub(alloc::fmt::format, stub_format)]
fn c03_filter_native_slices_materialised() {
    filter_native_model(2, 6);
}

//@ tier: quick
//@ functions: arrow_select::filter::{filter_native::<i16>, IndexIterator::collect (Indices)}
//@ bound: 4 rows, every non-trivial mask, predicate at bit offset 6, materialised Indices strategy; unwind 8
//@ stub: alloc::fmt::format -> empty String
#[kani::proof]
#[kani::unwind(8)]
#[kani::stub(alloc::fmt::format, stub_format)]
fn c03_filter_native_indices_materialised() {
    filter_native_model(3, 6);
}

fn filter_bits_model(strategy: u8) {
    let bits: u16 = kani::any();
    let boff: usize = 5;
    let mask: u8 = kani::any();
    let poff: usize = 6;
    kani::assume(mask < 16 && mask != 0 && mask != 15);
    let src = BooleanBuffer::new(Buffer::from_vec(bits.to_le_bytes().to_vec()), boff, N);
    let p = predicate(mask, poff, strategy);
    let out = filter_bits(&src, &p);
    let n_out = mask.count_ones() as usize;
    let k: usize = kani::any();
    kani::assume(k < n_out);
    let got = (out.as_slice()[0] >> k) & 1 == 1;
    let want = (bits >> (boff + kth(mask, k))) & 1 == 1;
    assert!(got == want, "output bit k is the k-th selected input bit");
    // filter_nulls on the same data: None iff no selected row is null, else the filtered validity
    let nulls = NullBuffer::new(src.clone());
    let fnulls = p.filter_nulls(Some(&nulls));
    let mut any_null = false;
    let mut j = 0;
    while j < N {
        if (mask >> j) & 1 == 1 && (bits >> (boff + j)) & 1 == 0 {
            any_null = true;
        }
        j += 1;
    }
    match &fnulls {
        None => assert!(!any_null, "no validity buffer only when every selected row is valid"),
        Some(nb) => {
            assert!(any_null && nb.len() == n_out);
            assert!(nb.is_valid(k) == want, "validity of output row k");
        }
    }
    kani::cover!(fnulls.is_some() && mask == 0b0101);
    kani::cover!(fnulls.is_none() && (bits >> boff) & 0xF != 0xF, "nulls only in unselected rows");
    std::mem::forget(fnulls);
    std::mem::forget(nulls);
    std::mem::forget(out);
    std::mem::forget(src);
    std::mem::forget(p);
}

//@ tier: quick
//@ functions: arrow_select::filter::{filter_bits, FilterPredicate::filter_nulls}, BooleanBufferBuilder::append_packed_range, NullBuffer::new
//@ bound: 4 source bits at bit offset 5, every non-trivial mask at predicate offset 6 (both straddle a byte boundary), lazy SlicesIterator strategy; per-index; unwind 8
//@ stub: alloc::fmt::format -> empty String
#[kani::proof]
#[kani::unwind(8)]
#[kani::stub(alloc::fmt::format, stub_format)]
fn c03_filter_bits_slices_iterator() {
    filter_bits_model(0);
}

//@ tier: quick
//@ functions: arrow_select::filter::{filter_bits, FilterPredicate::filter_nulls}, MutableBuffer::from_trusted_len_iter_bool
//@ bound: 4 source bits at bit offset 5, every non-trivial mask at predicate offset 6 (both straddle a byte boundary), lazy IndexIterator strategy; unwind 8
//@ stub: alloc::fmt::format -> empty String
#[kani::proof]
#[kani::unwind(8)]
#[kani::stub(alloc::fmt::format, stub_format)]
fn c03_filter_bits_index_iterator() {
    filter_bits_model(1);
}

//@ tier: thorough
//@ functions: arrow_select::filter::filter_bits (Slices)
//@ bound: as above, materialised Slices strategy; unwind 8
//@ stub: alloc::fmt::format -> empty String
#[kani::proof]
#[kani::unwind(8)]
#[kani::stub(alloc::fmt::format, stub_format)]
fn c03_filter_bits_slices_materialised() {
    filter_bits_model(2);
}

//@ tier: thorough
//@ functions: arrow_select::filter::filter_bits (Indices)
//@ bound: as above, materialised Indices strategy; unwind 8
//@ stub: alloc::fmt::format -> empty String
#[kani::proof]
#[kani::unwind(8)]
#[kani::stub(alloc::fmt::format, stub_format)]
fn c03_filter_bits_indices_materialised() {
    filter_bits_model(3);
}

//@ tier: quick
//@ functions: arrow_select::filter::{FilterBuilder::new, prep_null_mask_filter, IterationStrategy::default_strategy}, BooleanArray::true_count
//@ bound: 4-row predicate with symbolic values and validity: a null predicate row is not selected; count = rows that are valid and true; strategy None/All exactly for count 0 / count == len; unwind 8
//@ stub: alloc::fmt::format -> empty String
#[kani::proof]
#[kani::unwind(8)]
#[kani::stub(alloc::fmt::format, stub_format)]
fn c03_filter_builder_counts_valid_true() {
    let vals: u8 = kani::any();
    let valid: u8 = kani::any();
    let with_nulls: bool = kani::any();
    let values = BooleanBuffer::new(Buffer::from_vec(vec![vals]), 0, N);
    let nulls = if with_nulls { Some(NullBuffer::new(BooleanBuffer::new(Buffer::from_vec(vec![valid]), 0, N))) } else { None };
    let pred = BooleanArray::new(values, nulls);
    let b = FilterBuilder::new(&pred);
    let eff = if with_nulls { vals & valid & 0x0F } else { vals & 0x0F };
    assert!(b.count == eff.count_ones() as usize, "count = valid and true");
    let j: usize = kani::any();
    kani::assume(j < N);
    assert!(b.filter.value(j) == ((eff >> j) & 1 == 1), "effective mask: null predicate rows are unselected");
    assert!(b.filter.null_count() == 0, "effective mask has no nulls");
    assert!(matches!(b.strategy, IterationStrategy::None) == (eff == 0), "None iff nothing selected");
    assert!(matches!(b.strategy, IterationStrategy::All) == (eff == 0x0F), "All iff everything selected");
    kani::cover!(with_nulls && valid & 0x0F != 0x0F && eff != 0);
    std::mem::forget(b);
    std::mem::forget(pred);
}
