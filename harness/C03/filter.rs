//@ property: C03
//@ crate: arrow-select
//@ target: arrow-select/src/filter.rs
// Child module of arrow-select/src/filter.rs. The kernels are entered one call below the &dyn Array
// dispatcher (filter_native / filter_bits / filter_nulls are what filter_primitive and filter_boolean run),
// with every IterationStrategy forced through a FilterPredicate struct literal.
use super::*;
use arrow_buffer::Buffer;

fn stub_format(_a: std::fmt::Arguments<'_>) -> String {
    String::new()
}

const N: usize = 4;

fn predicate(mask: u8, poff: usize, strategy: u8) -> FilterPredicate {
    // predicate bits live at a symbolic bit offset inside a 2-byte buffer so the iterators see unaligned masks
    let word = (mask as u16) << poff;
    let pred = BooleanArray::new(BooleanBuffer::new(Buffer::from_vec(word.to_le_bytes().to_vec()), poff, N), None);
    let count = (mask & 0x0F).count_ones() as usize;
    let strategy = match strategy {
        0 => IterationStrategy::SlicesIterator,
        1 => IterationStrategy::IndexIterator,
        2 => IterationStrategy::Slices(SlicesIterator::new(&pred).collect()),
        _ => IterationStrategy::Indices(IndexIterator::new(&pred, count).collect()),
    };
    FilterPredicate { filter: pred, count, strategy }
}

// source row of the k-th selected row
fn kth(mask: u8, k: usize) -> usize {
    let mut seen = 0usize;
    let mut src = 0usize;
    let mut j = 0;
    while j < N {
        if (mask >> j) & 1 == 1 {
            if seen == k {
                src = j;
            }
            seen += 1;
        }
        j += 1;
    }
    src
}

// One predicate shape (mask is a compile-time constant in every call), arbitrary values: with a concrete mask every
// copy into the output has a concrete size.  (With a symbolic mask the run boundaries, and with them every memcpy
// length and the output's growth, are symbolic: 2 of 7 such harnesses finished, the rest hit the time or memory
// cap.)  The masks used cover: single row, one run in the middle, two runs, alternating, run at the end, all but one.
fn filter_native_case(strategy: u8, poff: usize, mask: u8) {
    let vals: [i16; N] = kani::any();
    let p = predicate(mask, poff, strategy);
    let out = filter_native::<i16>(&vals, &p);
    let n_out = mask.count_ones() as usize;
    assert!(out.len() == n_out * 2, "output has exactly the selected rows");
    let k: usize = kani::any();
    kani::assume(k < n_out);
    let got = out.typed_data::<i16>()[k];
    assert!(got == vals[kth(mask, k)], "output row k is the k-th selected input row");
    std::mem::forget(out);
    std::mem::forget(p);
}

macro_rules! filter_native_instance {
    ($name:ident, $strategy:expr, $poff:expr) => {
        #[kani::proof]
        #[kani::unwind(8)]
        #[kani::stub(alloc::fmt::format, stub_format)]
        fn $name() {
            filter_native_case($strategy, $poff, 0b0100);
            filter_native_case($strategy, $poff, 0b0110);
            filter_native_case($strategy, $poff, 0b1001);
            filter_native_case($strategy, $poff, 0b1010);
            filter_native_case($strategy, $poff, 0b1100);
            filter_native_case($strategy, $poff, 0b1011);
            kani::cover!(true, "reached the end");
        }
    };
}

//@ tier: quick
//@ functions: arrow_select::filter::{filter_native::<i16>, SlicesIterator::{new, next}}
//@ bound: 4 rows of arbitrary i16, six predicate shapes (0100, 0110, 1001, 1010, 1100, 1011: single row, one run, two runs, alternating, run at the end, all but one), predicate at bit offset 6 (its 4 bits straddle a byte boundary), lazy SlicesIterator strategy; per-index on the output row; unwind 8
//@ stub: alloc::fmt::format -> empty String
filter_native_instance!(c03_filter_native_slices_iterator, 0, 6);
//@ tier: quick
//@ functions: arrow_select::filter::{filter_native::<i16>, IndexIterator::{new, next}}, MutableBuffer::from_trusted_len_iter
//@ bound: as c03_filter_native_slices_iterator, lazy IndexIterator strategy; unwind 8
//@ stub: alloc::fmt::format -> empty String
filter_native_instance!(c03_filter_native_index_iterator, 1, 6);
//@ tier: quick
//@ functions: arrow_select::filter::{filter_native::<i16>, FilterBuilder::optimize (Slices)}
//@ bound: as c03_filter_native_slices_iterator, materialised Slices strategy; unwind 8
//@ stub: alloc::fmt::format -> empty String
filter_native_instance!(c03_filter_native_slices_materialised, 2, 6);
//@ tier: quick
//@ functions: arrow_select::filter::{filter_native::<i16>, IndexIterator::collect (Indices)}
//@ bound: as c03_filter_native_slices_iterator, materialised Indices strategy; unwind 8
//@ stub: alloc::fmt::format -> empty String
filter_native_instance!(c03_filter_native_indices_materialised, 3, 6);

fn filter_bits_case(strategy: u8, mask: u8) {
    let bits: u16 = kani::any();
    let boff: usize = 5;
    let poff: usize = 6;
    let src = BooleanBuffer::new(Buffer::from_vec(bits.to_le_bytes().to_vec()), boff, N);
    let p = predicate(mask, poff, strategy);
    let out = filter_bits(&src, &p);
    let n_out = mask.count_ones() as usize;
    let k: usize = kani::any();
    kani::assume(k < n_out);
    let got = (out.as_slice()[0] >> k) & 1 == 1;
    let want = (bits >> (boff + kth(mask, k))) & 1 == 1;
    assert!(got == want, "output bit k is the k-th selected input bit");
    // filter_nulls on the same data: None iff no selected row is null, else the filtered validity
    let nulls = NullBuffer::new(src.clone());
    let fnulls = p.filter_nulls(Some(&nulls));
    let sel = (bits >> boff) as u8 & 0x0F;
    let any_null = (!sel) & mask != 0;
    match &fnulls {
        None => assert!(!any_null, "no validity buffer only when every selected row is valid"),
        Some(nb) => {
            assert!(any_null && nb.len() == n_out);
            assert!(nb.is_valid(k) == want, "validity of output row k");
        }
    }
    std::mem::forget(fnulls);
    std::mem::forget(nulls);
    std::mem::forget(out);
    std::mem::forget(src);
    std::mem::forget(p);
}

macro_rules! filter_bits_instance {
    ($name:ident, $strategy:expr) => {
        #[kani::proof]
        #[kani::unwind(8)]
        #[kani::stub(alloc::fmt::format, stub_format)]
        fn $name() {
            filter_bits_case($strategy, 0b0110);
            filter_bits_case($strategy, 0b1001);
            filter_bits_case($strategy, 0b1011);
            kani::cover!(true, "reached the end");
        }
    };
}

//@ tier: quick
//@ timeout: 600
//@ functions: arrow_select::filter::{filter_bits, FilterPredicate::filter_nulls}, BooleanBufferBuilder::append_packed_range, NullBuffer::new
//@ bound: 4 arbitrary source bits at bit offset 5, predicate shapes 0110, 1001, 1011 at predicate offset 6 (both straddle a byte boundary), lazy SlicesIterator strategy; values per index, validity buffer present iff a selected row is null; unwind 8
//@ stub: alloc::fmt::format -> empty String
filter_bits_instance!(c03_filter_bits_slices_iterator, 0);
//@ tier: quick
//@ timeout: 600
//@ functions: arrow_select::filter::{filter_bits, FilterPredicate::filter_nulls}, MutableBuffer::from_trusted_len_iter_bool
//@ bound: as c03_filter_bits_slices_iterator, lazy IndexIterator strategy; unwind 8
//@ stub: alloc::fmt::format -> empty String
filter_bits_instance!(c03_filter_bits_index_iterator, 1);
//@ tier: thorough
//@ functions: arrow_select::filter::filter_bits (Slices)
//@ bound: as c03_filter_bits_slices_iterator, materialised Slices strategy; unwind 8
//@ stub: alloc::fmt::format -> empty String
filter_bits_instance!(c03_filter_bits_slices_materialised, 2);
//@ tier: thorough
//@ functions: arrow_select::filter::filter_bits (Indices)
//@ bound: as c03_filter_bits_slices_iterator, materialised Indices strategy; unwind 8
//@ stub: alloc::fmt::format -> empty String
filter_bits_instance!(c03_filter_bits_indices_materialised, 3);

fn filter_builder_model(with_nulls: bool) {
    let vals: u16 = kani::any();
    let valid: u16 = kani::any();
    // value bits at bit offset 3, validity bits at bit offset 5 of their own 2-byte buffers: different offsets
    // keep `values & validity` on the general (unaligned) path of the word kernel; operands that share an
    // offset mod 64 take the aligned fast path, which exceeds the memory cap (DESIGN §10, C19).  `with_nulls`
    // is concrete per instance (a symbolic Some/None makes the offsets inside the Option symbolic).
    let values = BooleanBuffer::new(Buffer::from_vec(vals.to_le_bytes().to_vec()), 3, N);
    let nulls = if with_nulls { Some(NullBuffer::new(BooleanBuffer::new(Buffer::from_vec(valid.to_le_bytes().to_vec()), 5, N))) } else { None };
    let pred = BooleanArray::new(values, nulls);
    let b = FilterBuilder::new(&pred);
    let v4 = (vals >> 3) as u8 & 0x0F;
    let m4 = (valid >> 5) as u8 & 0x0F;
    let eff = if with_nulls { v4 & m4 } else { v4 };
    assert!(b.count == eff.count_ones() as usize, "count = valid and true");
    let j: usize = kani::any();
    kani::assume(j < N);
    assert!(b.filter.value(j) == ((eff >> j) & 1 == 1), "effective mask: null predicate rows are unselected");
    assert!(b.filter.null_count() == 0, "effective mask has no nulls");
    assert!(matches!(b.strategy, IterationStrategy::None) == (eff == 0), "None iff nothing selected");
    assert!(matches!(b.strategy, IterationStrategy::All) == (eff == 0x0F), "All iff everything selected");
    kani::cover!(!with_nulls || (m4 != 0x0F && eff != 0 && v4 != eff), "a true predicate row that is null");
    std::mem::forget(b);
    std::mem::forget(pred);
}

//@ tier: quick
//@ timeout: 600
//@ functions: arrow_select::filter::{FilterBuilder::new, prep_null_mask_filter, IterationStrategy::default_strategy}, BooleanArray::true_count, BooleanBuffer::bitand
//@ bound: 4-row predicate with symbolic values (bit offset 3) and a validity buffer of symbolic content (bit offset 5): a null predicate row is not selected; count = rows that are valid and true; strategy None/All exactly for count 0 / count == len; unwind 8
//@ stub: alloc::fmt::format -> empty String
#[kani::proof]
#[kani::unwind(8)]
#[kani::stub(alloc::fmt::format, stub_format)]
fn c03_filter_builder_counts_valid_true() {
    filter_builder_model(true);
}

//@ tier: quick
//@ timeout: 600
//@ functions: arrow_select::filter::{FilterBuilder::new, IterationStrategy::default_strategy}, BooleanArray::true_count
//@ bound: as c03_filter_builder_counts_valid_true, predicate without a validity buffer; unwind 8
//@ stub: alloc::fmt::format -> empty String
#[kani::proof]
#[kani::unwind(8)]
#[kani::stub(alloc::fmt::format, stub_format)]
fn c03_filter_builder_no_validity() {
    filter_builder_model(false);
}
