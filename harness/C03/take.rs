//@ property: C03
//@ crate: arrow-select
//@ target: arrow-select/src/take.rs
// Child module of arrow-select/src/take.rs; kernels entered one call below take_impl's DataType dispatch.
use super::*;
use arrow_array::types::{Int32Type, UInt8Type};
use arrow_buffer::Buffer;

fn stub_format(_a: std::fmt::Arguments<'_>) -> String {
    String::new()
}

const V: usize = 3;
const K: usize = 3;

fn any_indices_i32(idx: &[i32; K], idx_valid: u8, with_nulls: bool) -> PrimitiveArray<Int32Type> {
    let nulls = if with_nulls { Some(NullBuffer::new(BooleanBuffer::new(Buffer::from_vec(vec![idx_valid]), 0, K))) } else { None };
    PrimitiveArray::<Int32Type>::new(ScalarBuffer::from(idx.to_vec()), nulls)
}

// `with_nulls` (and `with_vnulls`, `boff` below) are compile-time constants of each instance: an Option that is
// Some or None depending on a symbolic bool carries a payload that is symbolic on every path, which makes the
// offsets and lengths inside it symbolic too (memory cap).
fn take_native_model(with_nulls: bool) {
    let vals: [i16; V] = kani::any();
    let idx: [i32; K] = kani::any();
    let idx_valid: u8 = kani::any();
    kani::assume(idx_valid < 8);
    let mut j = 0;
    while j < K {
        if !with_nulls || (idx_valid >> j) & 1 == 1 {
            kani::assume(idx[j] >= 0 && (idx[j] as usize) < V);
        }
        j += 1;
    }
    let indices = any_indices_i32(&idx, idx_valid, with_nulls);
    let out = take_native::<i16, Int32Type>(&vals, &indices);
    assert!(out.len() == K, "one output row per index");
    let k: usize = kani::any();
    kani::assume(k < K);
    if !with_nulls || (idx_valid >> k) & 1 == 1 {
        assert!(out[k] == vals[idx[k] as usize], "row k = selected value");
    }
    kani::cover!(!with_nulls || (idx_valid == 0b101 && idx[1] < 0), "garbage index under a null slot");
    kani::cover!(idx[0] == idx[2] && (!with_nulls || idx_valid == 7), "duplicate indices");
    std::mem::forget(out);
    std::mem::forget(indices);
}

//@ tier: quick
//@ functions: arrow_select::take::take_native::<i16, Int32Type>
//@ bound: 3 values, 3 Int32 indices with a validity buffer of arbitrary content, duplicates allowed; valid indices in range (the dispatcher's check_bounds / documented precondition), indices under null slots arbitrary: output row k = values[index k] for valid k; unwind 6
//@ assume: valid indices are within 0..values.len() (take() verifies this when CheckBounds is requested and documents it otherwise)
//@ stub: alloc::fmt::format -> empty String
#[kani::proof]
#[kani::unwind(6)]
#[kani::stub(alloc::fmt::format, stub_format)]
fn c03_take_native_i32_indices_with_nulls() {
    take_native_model(true);
}

//@ tier: quick
//@ functions: arrow_select::take::take_native::<i16, Int32Type>
//@ bound: as c03_take_native_i32_indices_with_nulls, indices without a validity buffer; unwind 6
//@ assume: indices are within 0..values.len()
//@ stub: alloc::fmt::format -> empty String
#[kani::proof]
#[kani::unwind(6)]
#[kani::stub(alloc::fmt::format, stub_format)]
fn c03_take_native_i32_indices_no_nulls() {
    take_native_model(false);
}

fn take_bits_model(boff: usize, with_vnulls: bool, with_nulls: bool, check_bits: bool) {
    let bits: u16 = kani::any();
    let values = BooleanBuffer::new(Buffer::from_vec(bits.to_le_bytes().to_vec()), boff, V);
    let vvalid: u8 = kani::any();
    let vnulls = if with_vnulls { Some(NullBuffer::new(BooleanBuffer::new(Buffer::from_vec(vec![vvalid]), 0, V))) } else { None };
    let idx: [i32; K] = kani::any();
    let idx_valid: u8 = kani::any();
    kani::assume(idx_valid < 8);
    let mut j = 0;
    while j < K {
        if !with_nulls || (idx_valid >> j) & 1 == 1 {
            kani::assume(idx[j] >= 0 && (idx[j] as usize) < V);
        }
        j += 1;
    }
    let indices = any_indices_i32(&idx, idx_valid, with_nulls);
    let k: usize = kani::any();
    kani::assume(k < K);
    let k_valid = !with_nulls || (idx_valid >> k) & 1 == 1;
    if check_bits {
        let out = take_bits::<Int32Type>(&values, &indices);
        assert!(out.len() == K);
        if k_valid {
            assert!(out.value(k) == ((bits >> (boff + idx[k] as usize)) & 1 == 1), "bit k = selected bit");
        }
        std::mem::forget(out);
    }
    let onulls = take_nulls::<Int32Type>(vnulls.as_ref(), &indices);
    let src_valid = !with_vnulls || !k_valid || (vvalid >> (idx[k] as usize)) & 1 == 1;
    let want_valid = k_valid && src_valid;
    match &onulls {
        Some(n) => assert!(n.len() == K && n.is_valid(k) == want_valid, "null iff index null or selected value null"),
        None => assert!(want_valid, "no validity buffer only if every row is valid"),
    }
    kani::cover!(!(with_nulls && with_vnulls) || (onulls.is_some() && !want_valid && k_valid), "null taken from the values");
    kani::cover!(onulls.is_none() || !with_vnulls);
    std::mem::forget(onulls);
    std::mem::forget(indices);
    std::mem::forget(vnulls);
    std::mem::forget(values);
}

// NOT decided: take_nulls with nullable VALUES (take_bits over the validity bits, then NullBuffer::from_unsliced_buffer).
// Both instances tried (nullable values with and without nullable indices) exhausted the memory cap inside the
// drop glue of the validity Buffer that from_unsliced_buffer discards when the result has no null
// (Arc<Bytes> -> Deallocation::Custom(Arc<dyn Allocation>) -> every Drop impl in the program).  take_bits itself
// is decided below, NullBuffer construction under C19.
macro_rules! take_bits_instance {
    ($name:ident, $boff:expr, $vn:expr, $n:expr, $bits:expr) => {
        #[kani::proof]
        #[kani::unwind(6)]
        #[kani::stub(alloc::fmt::format, stub_format)]
        fn $name() {
            take_bits_model($boff, $vn, $n, $bits);
        }
    };
}

//@ tier: quick
//@ timeout: 600
//@ functions: arrow_select::take::{take_bits::<Int32Type>, take_nulls::<Int32Type>}
//@ bound: 3 boolean values at bit offset 0 without validity, 3 Int32 indices with a validity buffer of arbitrary content: output bit k = value bit index k (valid k); take_nulls returns the indices' validity; unwind 6
//@ assume: valid indices are within range
//@ stub: alloc::fmt::format -> empty String
take_bits_instance!(c03_take_bits_nullable_indices_only, 0, false, true, true);
//@ tier: quick
//@ timeout: 600
//@ functions: arrow_select::take::take_bits::<Int32Type>
//@ bound: 3 boolean values at bit offset 6 (straddling a byte boundary), 3 nullable Int32 indices: output bit k = value bit index k for valid k; unwind 6
//@ assume: valid indices are within range
//@ stub: alloc::fmt::format -> empty String
take_bits_instance!(c03_take_bits_unaligned_values, 6, false, true, true);

//@ tier: quick
//@ functions: arrow_select::take::take_native::<i8, UInt8Type>
//@ bound: 3 values, 3 UInt8 indices without nulls, in range; unwind 6
//@ assume: indices within range
//@ stub: alloc::fmt::format -> empty String
#[kani::proof]
#[kani::unwind(6)]
#[kani::stub(alloc::fmt::format, stub_format)]
fn c03_take_native_u8_indices() {
    let vals: [i8; V] = kani::any();
    let idx: [u8; K] = kani::any();
    kani::assume((idx[0] as usize) < V && (idx[1] as usize) < V && (idx[2] as usize) < V);
    let indices = PrimitiveArray::<UInt8Type>::new(ScalarBuffer::from(idx.to_vec()), None);
    let out = take_native::<i8, UInt8Type>(&vals, &indices);
    let k: usize = kani::any();
    kani::assume(k < K);
    assert!(out.len() == K && out[k] == vals[idx[k] as usize]);
    kani::cover!(idx[0] == 2 && idx[1] == 0);
    std::mem::forget(out);
    std::mem::forget(indices);
}
