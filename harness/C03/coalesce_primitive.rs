//@ property: C03
//@ crate: arrow-select
//@ target: arrow-select/src/coalesce/primitive.rs
// Child module of arrow-select/src/coalesce/primitive.rs: one step of the batch coalescer's primitive column —
// appending the rows a filter selects to the in-progress output values.  Concrete predicate shapes (they decide
// every copy length), arbitrary values and arbitrary earlier content.
use super::*;
use crate::filter::FilterBuilder;
use arrow_array::types::Int32Type;
use arrow_array::BooleanArray;
use arrow_buffer::{BooleanBuffer, Buffer};

fn stub_format(_a: std::fmt::Arguments<'_>) -> String {
    String::new()
}

const N: usize = 6;

// source row of the k-th selected row
fn kth(mask: u8, k: usize) -> usize {
    let mut seen = 0usize;
    let mut src = 0usize;
    let mut j = 0;
    while j < N {
        if (mask >> j) & 1 == 1 {
            if seen == k {
                src = j;
            }
            seen += 1;
        }
        j += 1;
    }
    src
}

fn coalesce_step(mask: u8, optimize: bool) {
    let vals: [i32; N] = kani::any();
    let before: [i32; 2] = kani::any();
    let mut current: Vec<i32> = Vec::with_capacity(16);
    current.extend_from_slice(&before);
    // the predicate sits at bit offset 3 of a 2-byte buffer
    let word = (mask as u16) << 3;
    let pred = BooleanArray::new(BooleanBuffer::new(Buffer::from_vec(word.to_le_bytes().to_vec()), 3, N), None);
    let b = FilterBuilder::new(&pred);
    let p = if optimize { b.optimize().build() } else { b.build() };
    let n_sel = mask.count_ones() as usize;
    assert!(p.count() == n_sel);
    match p.selection() {
        FilterSelection::Slices(s) => InProgressPrimitiveArray::<Int32Type>::append_values_by_slices(&mut current, &vals, s, n_sel),
        FilterSelection::Indices(i) => InProgressPrimitiveArray::<Int32Type>::append_values_by_indices(&mut current, &vals, i, n_sel),
        _ => assert!(false, "these shapes are neither empty nor full"),
    }
    assert!(current.len() == 2 + n_sel, "exactly the selected rows are appended");
    assert!(current[0] == before[0] && current[1] == before[1], "rows already in the batch are untouched");
    let k: usize = kani::any();
    kani::assume(k < n_sel);
    assert!(current[2 + k] == vals[kth(mask, k)], "appended row k is the k-th selected source row");
    std::mem::forget(p);
    std::mem::forget(pred);
    std::mem::forget(current);
}

macro_rules! coalesce_instance {
    ($name:ident, $optimize:expr) => {
        #[kani::proof]
        #[kani::unwind(9)]
        #[kani::stub(alloc::fmt::format, stub_format)]
        fn $name() {
            coalesce_step(0b000100, $optimize); // one row: index strategy
            coalesce_step(0b101001, $optimize); // sparse: index strategy
            coalesce_step(0b011110, $optimize); // one run
            coalesce_step(0b111101, $optimize); // dense (selectivity > 0.8): slice strategy
            coalesce_step(0b110111, $optimize);
            kani::cover!(true, "reached the end");
        }
    };
}

//@ tier: quick
//@ timeout: 900
//@ functions: arrow_select::coalesce::primitive::InProgressPrimitiveArray::<Int32Type>::{append_values_by_slices, append_values_by_indices}, filter::{FilterBuilder::{new, build}, FilterPredicate::selection, IterationStrategy::default_strategy, SlicesIterator, IndexIterator}
//@ bound: one coalescer step: in-progress output holding 2 arbitrary rows (capacity 16), source of 6 arbitrary i32, five predicate shapes (000100, 101001, 011110, 111101, 110111 — sparse ones take the index strategy, dense ones the slice strategy) at bit offset 3, lazy (un-optimised) predicate: output = earlier rows ++ selected rows in order; per-index; unwind 9
//@ stub: alloc::fmt::format -> empty String
coalesce_instance!(c03_coalesce_primitive_filtered_step_lazy, false);
//@ tier: quick
//@ timeout: 900
//@ functions: arrow_select::coalesce::primitive::InProgressPrimitiveArray::<Int32Type>::{append_values_by_slices, append_values_by_indices}, filter::{FilterBuilder::optimize, FilterPredicate::selection}
//@ bound: as c03_coalesce_primitive_filtered_step_lazy with the predicate optimised (materialised slices / indices); unwind 9
//@ stub: alloc::fmt::format -> empty String
coalesce_instance!(c03_coalesce_primitive_filtered_step_materialised, true);
