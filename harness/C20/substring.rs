//@ property: C20
//@ crate: arrow-string
//@ target: arrow-string/src/substring.rs
// Child module of arrow-string/src/substring.rs (pure window arithmetic of substring / substring_by_char).
use super::*;

//@ tier: quick
//@ functions: arrow_string::substring::{utf8_bounds, ascii_bounds}
//@ bound: strings of exactly 3 symbolic chars (every Unicode scalar value, every UTF-8 width: 3..=12 bytes), start any i64, length None or any usize: the returned byte range starts and ends on char boundaries and is exactly the character window of the definition (negative start counts from the end, window clipped to the string); on ASCII input ascii_bounds agrees; unwind 8
//@ assume: input generated from chars with encode_utf8 (valid UTF-8 by construction)
#[kani::proof]
#[kani::unwind(8)]
fn c20_utf8_bounds_is_char_window() {
    let c: [char; 3] = [kani::any(), kani::any(), kani::any()];
    let mut buf = [0u8; 12];
    let n1 = c[0].encode_utf8(&mut buf).len();
    let n2 = c[1].encode_utf8(&mut buf[n1..]).len();
    let n3 = c[2].encode_utf8(&mut buf[n1 + n2..]).len();
    let n = n1 + n2 + n3;
    let s = unsafe { std::str::from_utf8_unchecked(&buf[..n]) };
    let off = [0usize, n1, n1 + n2, n];
    let start: i64 = kani::any();
    let has_len: bool = kani::any();
    let l: usize = kani::any();
    let length = if has_len { Some(l) } else { None };
    let (a, e) = utf8_bounds(s, start, length);
    // definition on character positions (3 chars)
    let sc: usize = if start >= 0 {
        if start >= 3 { 3 } else { start as usize }
    } else if start <= -3 {
        0
    } else {
        (3 + start) as usize
    };
    let ec: usize = match length {
        None => 3,
        Some(l) => if l >= 3 - sc { 3 } else { sc + l },
    };
    assert!(a == off[sc], "window starts at character `start`");
    assert!(e == off[ec], "window ends `length` characters later (clipped)");
    if n == 3 {
        assert!(ascii_bounds(s, start, length) == (a, e), "ASCII fast path agrees");
    }
    kani::cover!(start == -2 && has_len && l == 1 && n1 == 3 && n2 == 2, "negative start inside multi-byte text");
    kani::cover!(start == i64::MIN);
    kani::cover!(has_len && l == usize::MAX && start == 1);
    kani::cover!(n == 12 && start == 1 && has_len && l == 1);
}

//@ tier: quick
//@ functions: arrow_string::substring::ascii_bounds
//@ bound: any byte length 0..=2^40 (only the length of the string is used), start any i64, length None or any usize: 0 <= start_offset <= end_offset <= len, and the window is the definition's; no overflow on extreme arguments
#[kani::proof]
fn c20_ascii_bounds_arithmetic() {
    // ascii_bounds only looks at val.len(): use a static ASCII string of symbolic length <= 8 for the call
    const TXT: &str = "abcdefgh";
    let len: usize = kani::any();
    kani::assume(len <= 8);
    let s = &TXT[..len];
    let start: i64 = kani::any();
    let has_len: bool = kani::any();
    let l: usize = kani::any();
    let length = if has_len { Some(l) } else { None };
    let (a, e) = ascii_bounds(s, start, length);
    assert!(a <= e && e <= len, "ordered and in range");
    let sc = if start >= 0 { if start as u64 >= len as u64 { len } else { start as usize } } else if start.unsigned_abs() >= len as u64 { 0 } else { len - start.unsigned_abs() as usize };
    assert!(a == sc, "start offset");
    assert!(e == match length { None => len, Some(l) => if l >= len - sc { len } else { sc + l } }, "end offset");
    kani::cover!(start == i64::MIN && has_len && l == usize::MAX);
    kani::cover!(start == -3 && len == 8 && has_len && l == 2);
}
