//@ property: C20
//@ crate: arrow-string
//@ target: arrow-string/src/predicate.rs
// Child module of arrow-string/src/predicate.rs: the non-regex LIKE / ILIKE strategies.
use super::*;

// contains_like_pattern is `memchr3(b'%', b'_', b'\\', bytes).is_some()`; the memchr crate selects its SIMD
// routine through CPU feature detection (inline assembly, which Kani rejects), and stubbing memchr::memchr3
// itself did not take effect for the cross-crate inlined body, so the one-line wrapper is replaced instead
fn naive_contains_like_pattern(pattern: &str) -> bool {
    let h = pattern.as_bytes();
    let mut i = 0;
    while i < h.len() {
        if h[i] == b'%' || h[i] == b'_' || h[i] == b'\\' {
            return true;
        }
        i += 1;
    }
    false
}

fn stub_regex_like(_p: &str, _ci: bool) -> Result<Regex, ArrowError> {
    Err(ArrowError::NotYetImplemented(String::new()))
}

// stands for Predicate::Contains(needle): memmem::Finder::new runs CPU feature detection through inline
// assembly, which Kani rejects; the harness evaluates the marker by naive substring search
fn stub_contains<'a>(needle: &'a str) -> Predicate<'a>
where
    'a: 'a,
{
    Predicate::IEqAscii(needle)
}

// reference LIKE matcher on ASCII bytes: % any sequence, _ one byte, \ escapes the next byte
fn like_ref(p: &[u8], s: &[u8], fuel: u32) -> bool {
    if fuel == 0 {
        return false;
    }
    if p.is_empty() {
        return s.is_empty();
    }
    match p[0] {
        b'%' => {
            let mut k = 0;
            while k <= s.len() {
                if like_ref(&p[1..], &s[k..], fuel - 1) {
                    return true;
                }
                k += 1;
            }
            false
        }
        b'_' => !s.is_empty() && like_ref(&p[1..], &s[1..], fuel - 1),
        b'\\' if p.len() >= 2 => !s.is_empty() && s[0] == p[1] && like_ref(&p[2..], &s[1..], fuel - 1),
        c => !s.is_empty() && s[0] == c && like_ref(&p[1..], &s[1..], fuel - 1),
    }
}

const ALPHA: [u8; 5] = [b'%', b'_', b'\\', b'a', b'b'];

fn like_model(maxp: usize, maxs: usize) {
    let mut pb = [0u8; 3];
    let mut sb = [0u8; 3];
    let mut i = 0;
    while i < 3 {
        let x: usize = kani::any();
        kani::assume(x < 5);
        pb[i] = ALPHA[x];
        let y: usize = kani::any();
        kani::assume(y < 5);
        sb[i] = ALPHA[y];
        i += 1;
    }
    let pl: usize = kani::any();
    kani::assume(pl <= maxp);
    let sl: usize = kani::any();
    kani::assume(sl <= maxs);
    let pat = unsafe { std::str::from_utf8_unchecked(&pb[..pl]) };
    let hay = unsafe { std::str::from_utf8_unchecked(&sb[..sl]) };
    let pred = Predicate::like(pat);
    if let Ok(p) = &pred {
        let want = like_ref(pat.as_bytes(), hay.as_bytes(), 8);
        match p {
            Predicate::Eq(_) | Predicate::StartsWith(_) | Predicate::EndsWith(_) => {
                assert!(p.evaluate(hay) == want, "fast path agrees with the LIKE definition");
                kani::cover!(matches!(p, Predicate::StartsWith(_)) && want && sl == 2 && pl == 2);
                kani::cover!(matches!(p, Predicate::EndsWith(_)) && !want && sl == 2);
                kani::cover!(matches!(p, Predicate::Eq(_)) && want && pl == 2);
            }
            Predicate::IEqAscii(needle) => {
                let n = needle.as_bytes();
                let h = hay.as_bytes();
                let mut found = n.is_empty();
                let mut k = 0;
                while k < 4 {
                    if k + n.len() <= h.len() && n.len() > 0 {
                        let mut all = true;
                        let mut j = 0;
                        while j < 3 {
                            if j < n.len() && h[k + j] != n[j] {
                                all = false;
                            }
                            j += 1;
                        }
                        if all {
                            found = true;
                        }
                    }
                    k += 1;
                }
                assert!(found == want, "%needle% means substring containment");
                kani::cover!(found && sl == 2);
            }
            _ => {}
        }
    }
    std::mem::forget(pred);
}


//@ tier: quick
//@ timeout: 900
//@ functions: arrow_string::predicate::{Predicate::like, Predicate::evaluate, contains_like_pattern, starts_with, ends_with, equals_kernel}
//@ bound: ASCII pattern of 0..=2 and haystack of 0..=2 symbols over the alphabet {% _ \\ a b}: whenever Predicate::like selects a non-regex strategy (Eq, StartsWith, EndsWith, Contains) its verdict on the haystack equals a naive backtracking LIKE matcher; patterns classified as Regex are NOT checked (the regex compiler is not executed); unwind 6
//@ stub: contains_like_pattern (= memchr3 for % _ \\) -> naive byte scan (the memchr crate's CPU feature detection is inline asm); regex_like -> Err; Predicate::contains -> marker variant carrying the needle, evaluated by naive substring search in the harness
#[kani::proof]
#[kani::unwind(6)]
#[kani::stub(contains_like_pattern, naive_contains_like_pattern)]
#[kani::stub(regex_like, stub_regex_like)]
#[kani::stub(Predicate::contains, stub_contains)]
fn c20_like_fast_paths_len2() {
    like_model(2, 2);
}

//@ tier: thorough
//@ timeout: 3000
//@ functions: arrow_string::predicate::{Predicate::like, Predicate::evaluate}
//@ bound: as c20_like_fast_paths_len2 with patterns and haystacks of 0..=3 symbols; unwind 6
//@ stub: contains_like_pattern -> naive byte scan; regex_like -> Err; Predicate::contains -> marker variant
#[kani::proof]
#[kani::unwind(6)]
#[kani::stub(contains_like_pattern, naive_contains_like_pattern)]
#[kani::stub(regex_like, stub_regex_like)]
#[kani::stub(Predicate::contains, stub_contains)]
fn c20_like_fast_paths_wide3() {
    like_model(3, 3);
}

//@ tier: quick
//@ functions: arrow_string::predicate::{starts_with, ends_with, equals_bytes, equals_kernel, equals_ignore_ascii_case_kernel}, Predicate::evaluate for IEqAscii / IStartsWithAscii / IEndsWithAscii
//@ bound: arbitrary ASCII haystack and needle of 0..=4 bytes: prefix / suffix / equality kernels agree with the byte-wise definitions, case-sensitive and ASCII-case-insensitive; unwind 7
#[kani::proof]
#[kani::unwind(7)]
fn c20_prefix_suffix_kernels() {
    let hb: [u8; 4] = kani::any();
    let nb: [u8; 4] = kani::any();
    kani::assume(hb[0] < 128 && hb[1] < 128 && hb[2] < 128 && hb[3] < 128);
    kani::assume(nb[0] < 128 && nb[1] < 128 && nb[2] < 128 && nb[3] < 128);
    let hl: usize = kani::any();
    let nl: usize = kani::any();
    kani::assume(hl <= 4 && nl <= 4);
    let h = unsafe { std::str::from_utf8_unchecked(&hb[..hl]) };
    let n = unsafe { std::str::from_utf8_unchecked(&nb[..nl]) };
    let fold = |c: u8| if c >= b'A' && c <= b'Z' { c + 32 } else { c };
    let (mut pre, mut suf, mut ipre, mut isuf) = (nl <= hl, nl <= hl, nl <= hl, nl <= hl);
    let mut j = 0;
    while j < 4 {
        if j < nl && nl <= hl {
            if hb[j] != nb[j] {
                pre = false;
            }
            if fold(hb[j]) != fold(nb[j]) {
                ipre = false;
            }
            if hb[hl - nl + j] != nb[j] {
                suf = false;
            }
            if fold(hb[hl - nl + j]) != fold(nb[j]) {
                isuf = false;
            }
        }
        j += 1;
    }
    assert!(starts_with(h, n, equals_kernel) == pre, "starts_with");
    assert!(ends_with(h, n, equals_kernel) == suf, "ends_with");
    assert!(Predicate::IStartsWithAscii(n).evaluate(h) == ipre, "case-insensitive prefix");
    assert!(Predicate::IEndsWithAscii(n).evaluate(h) == isuf, "case-insensitive suffix");
    assert!(Predicate::IEqAscii(n).evaluate(h) == (ipre && hl == nl), "case-insensitive equality");
    assert!(equals_bytes(h.as_bytes(), n.as_bytes(), equals_kernel) == (pre && hl == nl), "equals_bytes");
    kani::cover!(ipre && !pre && nl == 3);
    kani::cover!(suf && nl == 2 && hl == 4);
    kani::cover!(nl > hl);
}
