//@ property: C08
//@ crate: arrow-csv
//@ target: arrow-csv/src/reader/records.rs
// Child module of arrow-csv/src/reader/records.rs: the flush step of the CSV record decoder, which turns the bytes
// and field end offsets produced by csv_core into `&str` fields (StringRecord::get uses get_unchecked, so every
// field it hands out must be valid UTF-8 on its own - these strings become the values of Utf8 arrays).
use super::*;

fn stub_format(_a: std::fmt::Arguments<'_>) -> String {
    String::new()
}

// byte-wise UTF-8 validator (RFC 3629, Unicode table 3-7) for slices of at most 3 bytes
fn valid_utf8(b: &[u8]) -> bool {
    let e = b.len();
    let mut i = 0;
    let mut steps = 0;
    while steps < 3 {
        if i < e {
            let c = b[i];
            let need = if c < 0x80 {
                0
            } else if c >= 0xC2 && c <= 0xDF {
                1
            } else if c >= 0xE0 && c <= 0xEF {
                2
            } else {
                return false;
            };
            if i + need >= e && need > 0 {
                return false;
            }
            if need >= 1 {
                let d = b[i + 1];
                let (lo, hi) = match c {
                    0xE0 => (0xA0, 0xBF),
                    0xED => (0x80, 0x9F),
                    _ => (0x80, 0xBF),
                };
                if d < lo || d > hi {
                    return false;
                }
            }
            if need == 2 {
                let d = b[i + 2];
                if d < 0x80 || d > 0xBF {
                    return false;
                }
            }
            i += need + 1;
        }
        steps += 1;
    }
    true
}

// Contract model of core::str::from_utf8 for inputs of at most 3 bytes (std's validator is taken as correct)
fn model_from_utf8(v: &[u8]) -> Result<&str, std::str::Utf8Error> {
    kani::assume(v.len() <= 3);
    if valid_utf8(v) {
        Ok(unsafe { std::str::from_utf8_unchecked(v) })
    } else {
        Err(unsafe { std::mem::transmute::<[u64; 2], std::str::Utf8Error>([0, 0]) })
    }
}

//@ tier: quick
//@ timeout: 900
//@ functions: arrow_csv::reader::records::{RecordDecoder::flush, StringRecords::get, StringRecord::get}
//@ bound: decoder state after ONE decoded row of two fields (struct literal): 3 arbitrary data bytes, arbitrary field end offsets 0 <= e0 <= e1 = 3 (what csv_core produces for any delimiter position, quoted or not): if flush succeeds, each of the two fields handed out by StringRecord::get is valid UTF-8 by itself (RFC 3629, byte-wise) and is exactly its byte range; unwind 6
//@ assume: representation invariant of the decoder between rows: offsets[0] = 0, field ends are non-decreasing and the last one equals data_len
//@ stub: alloc::fmt::format -> empty String; core::str::from_utf8 -> byte-wise RFC 3629 model for <= 3 bytes
#[kani::proof]
#[kani::unwind(6)]
#[kani::stub(alloc::fmt::format, stub_format)]
#[kani::stub(std::str::from_utf8, model_from_utf8)]
fn c08_csv_flush_fields_are_valid_utf8() {
    let bytes: [u8; 3] = kani::any();
    let e0: usize = kani::any();
    kani::assume(e0 <= 3);
    // flush never touches the csv_core state machine (`delimiter`), and building one inside the model checker means
    // unrolling its 256-entry DFA table initialisation: the decoder is laid out in MaybeUninit storage with every
    // field except `delimiter` initialised, and is never dropped.
    let mut slot = std::mem::MaybeUninit::<RecordDecoder>::uninit();
    let p = slot.as_mut_ptr();
    unsafe {
        std::ptr::addr_of_mut!((*p).num_columns).write(2);
        std::ptr::addr_of_mut!((*p).line_number).write(2);
        std::ptr::addr_of_mut!((*p).offsets).write(vec![0, e0, 3]);
        std::ptr::addr_of_mut!((*p).offsets_len).write(3);
        std::ptr::addr_of_mut!((*p).current_field).write(0);
        std::ptr::addr_of_mut!((*p).num_rows).write(1);
        std::ptr::addr_of_mut!((*p).data).write(bytes.to_vec());
        std::ptr::addr_of_mut!((*p).data_len).write(3);
        std::ptr::addr_of_mut!((*p).truncated_rows).write(false);
        std::ptr::addr_of_mut!((*p).truncated_row_count).write(0);
    }
    let d: &mut RecordDecoder = unsafe { &mut *p };
    let r = d.flush();
    if let Ok(records) = &r {
        assert!(records.len() == 1);
        let row = records.get(0);
        let f0 = row.get(0);
        let f1 = row.get(1);
        assert!(f0.len() == e0 && f1.len() == 3 - e0, "each field is its byte range");
        assert!(valid_utf8(&bytes[..e0]), "first field is valid UTF-8 by itself");
        assert!(valid_utf8(&bytes[e0..]), "second field is valid UTF-8 by itself");
    }
    kani::cover!(r.is_ok() && e0 == 1 && bytes[1] >= 0xC2, "an ASCII field next to a two-byte character: accepted");
    kani::cover!(r.is_err() && e0 == 1 && bytes[0] >= 0xE0, "delimiter inside a three-byte character: rejected");
    std::mem::forget(r);
    std::mem::forget(slot);
}
