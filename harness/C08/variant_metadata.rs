//@ property: C08
//@ crate: parquet-variant
//@ target: parquet-variant/src/variant/metadata.rs
// Child module of parquet-variant/src/variant/metadata.rs: full validation of an untrusted metadata dictionary.
// What `VariantMetadata::try_new` accepts must be safe for the infallible accessors (`Index`, `iter`, `get_entry`
// all unwrap `get(i)`): accepted => every entry can be read.
use super::*;

fn stub_format(_a: std::fmt::Arguments<'_>) -> String {
    String::new()
}

// byte-wise UTF-8 validator (RFC 3629, Unicode table 3-7) for slices of at most 3 bytes
fn valid_utf8(b: &[u8]) -> bool {
    let e = b.len();
    let mut i = 0;
    let mut steps = 0;
    while steps < 3 {
        if i < e {
            let c = b[i];
            let need = if c < 0x80 {
                0
            } else if c >= 0xC2 && c <= 0xDF {
                1
            } else if c >= 0xE0 && c <= 0xEF {
                2
            } else {
                return false;
            };
            if i + need >= e && need > 0 {
                return false;
            }
            if need >= 1 {
                let d = b[i + 1];
                let (lo, hi) = match c {
                    0xE0 => (0xA0, 0xBF),
                    0xED => (0x80, 0x9F),
                    _ => (0x80, 0xBF),
                };
                if d < lo || d > hi {
                    return false;
                }
            }
            if need == 2 {
                let d = b[i + 2];
                if d < 0x80 || d > 0xBF {
                    return false;
                }
            }
            i += need + 1;
        }
        steps += 1;
    }
    true
}

// Contract model of core::str::from_utf8 for inputs of at most 3 bytes (std's validator is taken as correct; its
// word-at-a-time fast path over a slice of symbolic bounds exhausts the memory cap).
fn model_from_utf8(v: &[u8]) -> Result<&str, std::str::Utf8Error> {
    kani::assume(v.len() <= 3);
    if valid_utf8(v) {
        Ok(unsafe { std::str::from_utf8_unchecked(v) })
    } else {
        Err(unsafe { std::mem::transmute::<[u64; 2], std::str::Utf8Error>([0, 0]) })
    }
}

fn metadata_model(header: u8) {
    // header, dictionary size = 2 (concrete: it fixes where the value bytes start), three arbitrary one-byte
    // offsets, then up to 3 arbitrary value bytes
    let mut bytes: [u8; 8] = kani::any();
    bytes[0] = header;
    bytes[1] = 2;
    // concrete input length (a symbolic length 5..=8 costs 400 s per instance): 5 header/offset bytes + 2 value bytes
    let n: usize = 7;
    let r = VariantMetadata::try_new(&bytes[..n]);
    if let Ok(m) = &r {
        assert!(m.len() == 2);
        let i: usize = kani::any();
        kani::assume(i < 2);
        let e = m.get(i);
        let ok = e.is_ok();
        std::mem::forget(e);
        assert!(ok, "an accepted dictionary has every entry readable (the infallible accessors unwrap get(i))");
    }
    kani::cover!(r.is_ok() && bytes[3] == 1 && bytes[4] == 2 && bytes[5] < bytes[6], "two one-byte entries accepted");
    kani::cover!(r.is_err() && bytes[2] == 0 && bytes[4] == 2, "first and last offset plausible, still rejected");
    std::mem::forget(r);
}

//@ tier: quick
//@ timeout: 900
//@ functions: parquet_variant::VariantMetadata::{try_new, try_new_with_shallow_validation, with_full_validation, get, get_offset}, decoder::{OffsetSizeBytes::unpack_u32, map_bytes_to_offsets}, utils::string_from_slice
//@ bound: UNSORTED metadata (header 0x01: version 1, one-byte offsets) declaring 2 dictionary entries, input of 7 bytes (three arbitrary one-byte offsets, 2 arbitrary value bytes): if try_new accepts, get(i) succeeds for both entries (so Index / iter / get_entry cannot panic); unwind 6
//@ stub: alloc::fmt::format -> empty String; core::str::from_utf8 -> byte-wise RFC 3629 model for <= 3 bytes (crate built without the simdutf8 feature)
#[kani::proof]
#[kani::unwind(6)]
#[kani::stub(alloc::fmt::format, stub_format)]
#[kani::stub(std::str::from_utf8, model_from_utf8)]
fn c08_variant_metadata_unsorted_accept_implies_readable() {
    metadata_model(0x01);
}

//@ tier: quick
//@ timeout: 900
//@ functions: parquet_variant::VariantMetadata::{try_new, with_full_validation (sorted branch), get}
//@ bound: as c08_variant_metadata_unsorted_accept_implies_readable for SORTED metadata (header 0x11); unwind 6
//@ stub: alloc::fmt::format -> empty String; core::str::from_utf8 -> byte-wise RFC 3629 model for <= 3 bytes
#[kani::proof]
#[kani::unwind(6)]
#[kani::stub(alloc::fmt::format, stub_format)]
#[kani::stub(std::str::from_utf8, model_from_utf8)]
fn c08_variant_metadata_sorted_accept_implies_readable() {
    metadata_model(0x11);
}
