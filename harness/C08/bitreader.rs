//@ property: C08
//@ crate: parquet
//@ target: parquet/src/util/bit_util.rs
// Child module of parquet/src/util/bit_util.rs: the bit/byte reader every Parquet page payload passes through.
use super::*;

fn stub_format(_a: std::fmt::Arguments<'_>) -> String {
    String::new()
}

//@ tier: quick
//@ timeout: 900
//@ functions: parquet::util::bit_util::BitReader::{get_vlq_int, get_zigzag_vlq_int, get_byte_offset}
//@ bound: every byte string of length 0..=12 (page bytes are untrusted): never panics, Some(_) consumed 1..=10 bytes ending in a terminator, None leaves no terminator within the first 10 bytes; unwind 14
//@ stub: alloc::fmt::format -> empty String
#[kani::proof]
#[kani::unwind(14)]
#[kani::stub(alloc::fmt::format, stub_format)]
fn c08_bitreader_vlq_total() {
    const N: usize = 12;
    let bytes: [u8; N] = kani::any();
    let n: usize = kani::any();
    kani::assume(n <= N);
    let mut r = BitReader::new(Bytes::copy_from_slice(&bytes[..n]));
    let v = r.get_vlq_int();
    let used = r.get_byte_offset();
    match v {
        Some(_) => {
            assert!(used >= 1 && used <= n && used <= MAX_VLQ_BYTE_LEN, "consumed a complete varint");
            assert!(bytes[used - 1] & 0x80 == 0, "last byte is the terminator");
        }
        None => {
            let i: usize = kani::any();
            kani::assume(i < n && i < MAX_VLQ_BYTE_LEN);
            assert!(bytes[i] & 0x80 != 0, "None only if no terminator among the first 10 bytes");
        }
    }
    std::mem::forget(r);
    kani::cover!(v.is_some() && used == 10, "ten byte varint");
    kani::cover!(v.is_none() && n == 12, "eleven continuation bytes");
    kani::cover!(v.is_none() && n == 3, "truncated");
}

//@ tier: quick
//@ functions: parquet::util::bit_util::BitReader::{get_value::<u64>, get_aligned::<u32>, skip, load_buffered_values}, read_num_bytes, trailing_bits
//@ bound: arbitrary 12-byte buffer of symbolic length 0..=12, two consecutive reads of symbolic widths 0..=64: never panics; Some(v) => v is exactly the addressed bits (per-index), position advances by the width; None => position unchanged; unwind 10
//@ stub: alloc::fmt::format -> empty String
#[kani::proof]
#[kani::unwind(10)]
#[kani::stub(alloc::fmt::format, stub_format)]
fn c08_bitreader_get_value_total() {
    const N: usize = 12;
    let bytes: [u8; N] = kani::any();
    let n: usize = kani::any();
    kani::assume(n <= N);
    let mut r = BitReader::new(Bytes::copy_from_slice(&bytes[..n]));
    let w1: usize = kani::any();
    let w2: usize = kani::any();
    kani::assume(w1 <= 64 && w2 <= 64);
    let a = r.get_value::<u64>(w1);
    let p1 = if a.is_some() { w1 } else { 0 };
    let b = r.get_value::<u64>(w2);
    if a.is_none() {
        assert!(w1 > n * 8, "first read fails only when not enough bits");
    }
    match b {
        Some(v) => {
            assert!(p1 + w2 <= n * 8, "read stays inside the buffer");
            let i: usize = kani::any();
            kani::assume(i < 64);
            if i < w2 {
                assert!(((v >> i) & 1 == 1) == get_bit(&bytes, p1 + i), "bit i of the value = bit p1+i of the buffer");
            } else {
                assert!((v >> i) & 1 == 0, "bits above the width are zero");
            }
        }
        None => assert!(p1 + w2 > n * 8, "None only when not enough bits remain"),
    }
    std::mem::forget(r);
    kani::cover!(a.is_some() && b.is_some() && w1 % 8 != 0 && p1 + w2 > 64, "second read crosses the 64-bit window");
    kani::cover!(a.is_some() && b.is_none(), "second read fails");
    kani::cover!(b.is_some() && w2 == 64 && w1 == 3, "full-width unaligned read");
}
