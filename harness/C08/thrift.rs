//@ property: C08
//@ crate: parquet
//@ target: parquet/src/parquet_thrift.rs
// Child module of parquet/src/parquet_thrift.rs: the Thrift compact-protocol reader that every byte of
// Parquet metadata (footer, page headers, indexes, bloom filter headers) passes through.
use super::*;

fn stub_format(_a: std::fmt::Arguments<'_>) -> String {
    String::new()
}

//@ tier: quick
//@ functions: parquet::parquet_thrift::ThriftCompactInputProtocol::{read_vlq, read_zig_zag, skip_vlq}, ThriftSliceInputProtocol::read_byte
//@ bound: every byte string of length 0..=11: never panics, Ok consumes >= 1 byte and <= bytes present, skip_vlq consumes exactly what read_vlq consumes; unwind 13
//@ stub: alloc::fmt::format -> empty String
#[kani::proof]
#[kani::unwind(13)]
#[kani::stub(alloc::fmt::format, stub_format)]
fn c08_thrift_vlq_total() {
    const N: usize = 11;
    let bytes: [u8; N] = kani::any();
    let n: usize = kani::any();
    kani::assume(n <= N);
    let mut p = ThriftSliceInputProtocol::new(&bytes[..n]);
    let r = p.read_vlq();
    let mut q = ThriftSliceInputProtocol::new(&bytes[..n]);
    let s = q.skip_vlq();
    let (rok, sok) = (r.is_ok(), s.is_ok());
    assert!(rok == sok, "skip and read accept the same inputs");
    if rok {
        assert!(p.as_slice().len() < n, "progress");
        assert!(p.as_slice().len() == q.as_slice().len(), "skip consumes what read consumes");
    }
    if let Ok(v) = &r {
        if n - p.as_slice().len() == 1 {
            assert!(*v == bytes[0] as u64, "single byte value");
        }
    }
    std::mem::forget(r);
    std::mem::forget(s);
    kani::cover!(rok && n - p.as_slice().len() == 10, "ten byte varint");
    kani::cover!(!rok && n == N, "runs off the end");
}

//@ tier: quick
//@ functions: parquet::parquet_thrift::ThriftCompactInputProtocol::{read_list_begin, read_field_begin, read_field_header, read_bytes, read_bool, read_i16, read_i32}
//@ bound: every byte string of length 0..=7: no panic, announced list size is non-negative, read_bytes returns a slice inside the input; unwind 9
//@ stub: alloc::fmt::format -> empty String
#[kani::proof]
#[kani::unwind(9)]
#[kani::stub(alloc::fmt::format, stub_format)]
fn c08_thrift_headers_total() {
    const N: usize = 7;
    let bytes: [u8; N] = kani::any();
    let n: usize = kani::any();
    kani::assume(n <= N);
    let mut p = ThriftSliceInputProtocol::new(&bytes[..n]);
    let r = p.read_list_begin();
    if let Ok(l) = &r {
        assert!(l.size >= 0, "list size is never negative");
        assert!(p.as_slice().len() < n);
        kani::cover!(l.size > 1_000_000, "huge announced size from few bytes");
    }
    std::mem::forget(r);
    let mut p = ThriftSliceInputProtocol::new(&bytes[..n]);
    let last: i16 = kani::any();
    let r = p.read_field_begin(last);
    if r.is_ok() {
        assert!(p.as_slice().len() < n);
    }
    std::mem::forget(r);
    let mut p = ThriftSliceInputProtocol::new(&bytes[..n]);
    let r = p.read_bytes();
    if let Ok(b) = &r {
        assert!(b.len() + p.as_slice().len() < n, "binary is inside the input");
        kani::cover!(b.len() == 3);
    }
    std::mem::forget(r);
    let mut p = ThriftSliceInputProtocol::new(&bytes[..n]);
    std::mem::forget(p.read_bool());
    std::mem::forget(p.read_i16());
    std::mem::forget(p.read_i32());
    assert!(p.as_slice().len() <= n);
}

// A protocol over a fixed array with an index cursor. The five required methods are this trivial
// model; everything exercised below - read_vlq, read_list_begin, read_field_begin, skip_till_depth
// and (after the F2 repair) the per-element skip - is the crate's own default-method code, which is
// what every ThriftCompactInputProtocol (slice- and Read-based) shares. CBMC handles an index cursor
// far better than the `self.buf = &self.buf[1..]` fat-pointer updates of ThriftSliceInputProtocol
// (whose own five methods are decided by c08_thrift_vlq_total / c08_thrift_headers_total).
struct ArrProto {
    data: [u8; 8],
    len: usize,
    pos: usize,
}

impl<'a> ThriftCompactInputProtocol<'a> for ArrProto {
    fn read_byte(&mut self) -> ThriftProtocolResult<u8> {
        if self.pos < self.len {
            let b = self.data[self.pos];
            self.pos += 1;
            Ok(b)
        } else {
            Err(ThriftProtocolError::Eof)
        }
    }
    fn read_bytes(&mut self) -> ThriftProtocolResult<&'a [u8]> {
        let n = self.read_vlq()? as usize;
        self.skip_bytes(n)?;
        Ok(&[])
    }
    fn read_bytes_owned(&mut self) -> ThriftProtocolResult<Vec<u8>> {
        self.read_bytes()?;
        Ok(Vec::new())
    }
    fn skip_bytes(&mut self, n: usize) -> ThriftProtocolResult<()> {
        if n <= self.len - self.pos {
            self.pos += n;
            Ok(())
        } else {
            Err(ThriftProtocolError::Eof)
        }
    }
    fn read_double(&mut self) -> ThriftProtocolResult<f64> {
        self.skip_bytes(8)?;
        Ok(0.0)
    }
}

fn any_proto<const N: usize>() -> ArrProto {
    let bytes: [u8; N] = kani::any();
    let mut data = [0u8; 8];
    let mut i = 0;
    while i < N {
        data[i] = bytes[i];
        i += 1;
    }
    let len: usize = kani::any();
    kani::assume(len <= N);
    ArrProto { data, len, pos: 0 }
}

// A list/set whose header byte AND input length are concrete, so the element type, the element count
// and every length test are constants for CBMC's simplifier and only the feasible arm of
// skip_till_depth is explored (with a symbolic header all twelve arms are expanded at every level:
// no verdict in 300 s even for 3 input bytes). Payload bytes stay symbolic.
fn skip_fixed_header_and_len<const HEADER: u8, const LEN: usize>() {
    let rest: [u8; 7] = kani::any();
    let input = [HEADER, rest[0], rest[1], rest[2], rest[3], rest[4], rest[5], rest[6]];
    let size = (HEADER >> 4) as usize;
    let mut p = ThriftSliceInputProtocol::new(&input[..LEN]);
    let r = p.skip_till_depth(FieldType::List, 2);
    let ok = r.is_ok();
    std::mem::forget(r); // never drop a ThriftProtocolError: its IO(io::Error) variant has dyn drop glue
    let used = LEN - p.as_slice().len();
    if ok {
        assert!(used >= 1 + size, "every skipped collection element occupies at least one byte");
    }
    kani::cover!(ok || !ok, "reached");
}

macro_rules! skip_list_instance {
    ($name:ident, $header:expr, $len:expr) => {
        //@ tier: quick
        //@ functions: parquet::parquet_thrift::ThriftCompactInputProtocol::{skip_till_depth, read_list_begin} on ThriftSliceInputProtocol, one list instance
        //@ bound: concrete list header byte (high nibble = element count, low nibble = element type) and concrete input length (the instantiation arguments), every value of the payload bytes: success implies header + one byte per announced element were consumed (compact-protocol collection elements, booleans included, occupy >= 1 byte); depth 2; unwind 10
        //@ stub: alloc::fmt::format -> empty String
        #[kani::proof]
        #[kani::unwind(10)]
        #[kani::stub(alloc::fmt::format, stub_format)]
        fn $name() {
            skip_fixed_header_and_len::<{ $header }, { $len }>();
        }
    };
}

skip_list_instance!(c08_thrift_skip_bool_x1_len1, 0x12, 1);
skip_list_instance!(c08_thrift_skip_bool_x1_len2, 0x12, 2);
skip_list_instance!(c08_thrift_skip_bool_x3_len3, 0x32, 3);
skip_list_instance!(c08_thrift_skip_bool_x3_len4, 0x32, 4);
skip_list_instance!(c08_thrift_skip_bool1_x2_len2, 0x21, 2);
skip_list_instance!(c08_thrift_skip_byte_x2_len3, 0x23, 3);
skip_list_instance!(c08_thrift_skip_i32_x2_len4, 0x25, 4);
skip_list_instance!(c08_thrift_skip_binary_x1_len4, 0x18, 4);
skip_list_instance!(c08_thrift_skip_lists_x2_len3, 0x29, 3);
skip_list_instance!(c08_thrift_skip_structs_x2_len3, 0x2C, 3);

//@ tier: quick
//@ unwind_is_violation: yes
//@ functions: parquet::parquet_thrift::ThriftCompactInputProtocol::skip_till_depth for list<bool> with a varint-encoded size
//@ bound: termination bound: the 6 input bytes F2 FF FF FF FF 07 (list<bool> announcing 2^31-1 elements - the shape of finding F2) followed by nothing: skipping performs at most 8 iterations of any loop (unwinding assertions ON, unwind 9) and fails; the work is bounded by the bytes present, not by the announced element count
//@ stub: alloc::fmt::format -> empty String
#[kani::proof]
#[kani::unwind(9)]
#[kani::stub(alloc::fmt::format, stub_format)]
fn c08_thrift_skip_terminates_within_input() {
    let tail: u8 = kani::any();
    let input = [0xF2u8, 0xFF, 0xFF, 0xFF, 0xFF, 0x07, tail];
    let mut p = ThriftSliceInputProtocol::new(&input[..7]);
    let r = p.skip_till_depth(FieldType::List, 2);
    let ok = r.is_ok();
    std::mem::forget(r);
    assert!(!ok, "2^31-1 announced elements cannot be skipped from one byte of payload");
    kani::cover!(!ok, "rejected");
}

// error conversion cut: building a ParquetError from a ThriftProtocolError formats a message and can box an
// io::Error as `dyn Error`; neither matters for the allocation bound
fn stub_thrift_err_into_parquet(e: ThriftProtocolError) -> ParquetError {
    std::mem::forget(e);
    ParquetError::NeedMoreData(0)
}

static mut CAP_LIMIT: usize = 0;
fn checked_with_capacity<T>(cap: usize) -> Vec<T> {
    kani::cover!(cap >= 16384, "a reservation of 64 KiB is requested");
    kani::cover!(cap == 3, "small list");
    // the reservation a decoder makes up front must be bounded by a constant plus the input present,
    // never by an announced length alone (bytes requested = cap * size_of::<T>())
    unsafe {
        assert!(cap.saturating_mul(std::mem::size_of::<T>()) <= CAP_LIMIT, "ALLOC-UNBOUNDED: Vec::with_capacity request exceeds what the input can justify");
    }
    // the claim of this harness ends at the reservation
    kani::assume(false);
    Vec::new()
}

//@ tier: quick
//@ functions: parquet::parquet_thrift::{read_thrift_vec::<i32>, thrift_list_vec / Vec::with_capacity reservation}, validate_list_type, read_list_begin
//@ bound: list<i32> header 0xF5 followed by 5 arbitrary bytes (ANY announced size up to 2^31-1; concrete input length 6): the up-front Vec::with_capacity request is at most 64 KiB + the bytes present (the claim of this harness ends at the reservation); unwind 8
//@ stub: alloc::fmt::format -> empty String
//@ stub: Vec::<i32>::with_capacity -> asserts the requested capacity against the bound, then ends the path (allocates nothing)
//@ stub: <ParquetError as From<ThriftProtocolError>>::from -> constant error (message formatting and io::Error boxing are outside the claim)
#[kani::proof]
#[kani::unwind(8)]
#[kani::stub(alloc::fmt::format, stub_format)]
#[kani::stub(std::vec::Vec::with_capacity, checked_with_capacity)]
#[kani::stub(<crate::errors::ParquetError as std::convert::From<crate::parquet_thrift::ThriftProtocolError>>::from, stub_thrift_err_into_parquet)]
fn c08_thrift_vec_allocation_bounded() {
    let rest: [u8; 5] = kani::any();
    let input = [0xF5u8, rest[0], rest[1], rest[2], rest[3], rest[4]];
    unsafe {
        CAP_LIMIT = 64 * 1024 + 6;
    }
    let mut p = ThriftSliceInputProtocol::new(&input[..6]);
    let r: Result<Vec<i32>> = read_thrift_vec(&mut p);
    std::mem::forget(r);
}

// nesting deeper than the permitted depth: `LEVELS` nested collections of the given header byte, then a
// terminator; skipping with depth 2 must refuse (Err) after two levels instead of following the input
fn skip_depth_limit<const HEADER: u8, const MAP: bool>() {
    let tail: u8 = kani::any();
    let input = if MAP {
        // map of 1 entry, key byte (0x3), value = nested map ... : size=1, kv=0x3B, key, then nested
        [1u8, 0x3B, 0, 1, 0x3B, 0, 1, 0x3B, 0, 0, tail, 0]
    } else {
        [HEADER, HEADER, HEADER, HEADER, HEADER, HEADER, HEADER, 0x00, tail, 0, 0, 0]
    };
    let ft = if MAP { FieldType::Map } else { FieldType::try_from(HEADER & 0x0f).unwrap_or(FieldType::List) };
    let mut p = ThriftSliceInputProtocol::new(&input[..10]);
    let r = p.skip_till_depth(ft, 2);
    let ok = r.is_ok();
    std::mem::forget(r);
    assert!(!ok, "nesting beyond the depth limit is an error");
    assert!(10 - p.as_slice().len() <= 6, "and is detected after two levels, not by following the input to its end");
    kani::cover!(!ok);
}

macro_rules! skip_depth_instance {
    ($name:ident, $header:expr, $map:expr) => {
        //@ tier: quick
        //@ functions: parquet::parquet_thrift::ThriftCompactInputProtocol::skip_till_depth (recursion depth limit) for nested list / set / struct / map
        //@ bound: seven-fold nesting of one-element collections of the instance's type (concrete header bytes), depth limit 2: the skipper returns an error after at most two levels (recursion is bounded by the depth argument, not by the input); unwind 10
        //@ stub: alloc::fmt::format -> empty String
        #[kani::proof]
        #[kani::unwind(10)]
        #[kani::stub(alloc::fmt::format, stub_format)]
        fn $name() {
            skip_depth_limit::<{ $header }, { $map }>();
        }
    };
}

skip_depth_instance!(c08_thrift_depth_limit_lists, 0x19, false);
skip_depth_instance!(c08_thrift_depth_limit_sets, 0x1A, false);
skip_depth_instance!(c08_thrift_depth_limit_structs, 0x1C, false);
skip_depth_instance!(c08_thrift_depth_limit_maps, 0x00, true);
