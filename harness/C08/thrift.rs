//@ property: C08
//@ crate: parquet
//@ target: parquet/src/parquet_thrift.rs
// Child module of parquet/src/parquet_thrift.rs: the Thrift compact-protocol reader that every byte of
// Parquet metadata (footer, page headers, indexes, bloom filter headers) passes through.
use super::*;

fn stub_format(_a: std::fmt::Arguments<'_>) -> String {
    String::new()
}

//@ tier: quick
//@ functions: parquet::parquet_thrift::ThriftCompactInputProtocol::{read_vlq, read_zig_zag, skip_vlq}, ThriftSliceInputProtocol::read_byte
//@ bound: every byte string of length 0..=11: never panics, Ok consumes >= 1 byte and <= bytes present, skip_vlq consumes exactly what read_vlq consumes; unwind 13
//@ stub: alloc::fmt::format -> empty String
#[kani::proof]
#[kani::unwind(13)]
#[kani::stub(alloc::fmt::format, stub_format)]
fn c08_thrift_vlq_total() {
    const N: usize = 11;
    let bytes: [u8; N] = kani::any();
    let n: usize = kani::any();
    kani::assume(n <= N);
    let mut p = ThriftSliceInputProtocol::new(&bytes[..n]);
    let r = p.read_vlq();
    let mut q = ThriftSliceInputProtocol::new(&bytes[..n]);
    let s = q.skip_vlq();
    assert!(r.is_ok() == s.is_ok(), "skip and read accept the same inputs");
    if r.is_ok() {
        assert!(p.as_slice().len() < n, "progress");
        assert!(p.as_slice().len() == q.as_slice().len(), "skip consumes what read consumes");
    }
    if let Ok(v) = r {
        if n - p.as_slice().len() == 1 {
            assert!(v == bytes[0] as u64, "single byte value");
        }
    }
    kani::cover!(r.is_ok() && n - p.as_slice().len() == 10, "ten byte varint");
    kani::cover!(r.is_err() && n == N, "runs off the end");
}

//@ tier: quick
//@ functions: parquet::parquet_thrift::ThriftCompactInputProtocol::{read_list_begin, read_field_begin, read_field_header, read_bytes, read_bool, read_i16, read_i32}
//@ bound: every byte string of length 0..=7: no panic, announced list size is non-negative, read_bytes returns a slice inside the input; unwind 9
//@ stub: alloc::fmt::format -> empty String
#[kani::proof]
#[kani::unwind(9)]
#[kani::stub(alloc::fmt::format, stub_format)]
fn c08_thrift_headers_total() {
    const N: usize = 7;
    let bytes: [u8; N] = kani::any();
    let n: usize = kani::any();
    kani::assume(n <= N);
    let mut p = ThriftSliceInputProtocol::new(&bytes[..n]);
    if let Ok(l) = p.read_list_begin() {
        assert!(l.size >= 0, "list size is never negative");
        assert!(p.as_slice().len() < n);
        kani::cover!(l.size > 1_000_000, "huge announced size from few bytes");
    }
    let mut p = ThriftSliceInputProtocol::new(&bytes[..n]);
    let last: i16 = kani::any();
    if let Ok(f) = p.read_field_begin(last) {
        assert!(p.as_slice().len() < n);
        let _ = f.field_type;
    }
    let mut p = ThriftSliceInputProtocol::new(&bytes[..n]);
    if let Ok(b) = p.read_bytes() {
        assert!(b.len() + p.as_slice().len() < n, "binary is inside the input");
        kani::cover!(b.len() == 3);
    }
    let mut p = ThriftSliceInputProtocol::new(&bytes[..n]);
    let _ = p.read_bool();
    let _ = p.read_i16();
    let _ = p.read_i32();
    assert!(p.as_slice().len() <= n);
}

//@ tier: quick
//@ functions: parquet::parquet_thrift::ThriftCompactInputProtocol::{skip_till_depth, read_list_begin} for List/Set of every element type
//@ bound: every byte string of length 0..=8 whose list header announces <= 8 elements: if skipping the list succeeds it consumed at least header + one byte per announced element (compact-protocol collection elements, booleans included, occupy >= 1 byte); depth 2; unwind 12
//@ stub: alloc::fmt::format -> empty String
#[kani::proof]
#[kani::unwind(12)]
#[kani::stub(alloc::fmt::format, stub_format)]
fn c08_thrift_skip_list_consumes_elements() {
    const N: usize = 8;
    let bytes: [u8; N] = kani::any();
    let n: usize = kani::any();
    kani::assume(n <= N);
    let mut h = ThriftSliceInputProtocol::new(&bytes[..n]);
    if let Ok(l) = h.read_list_begin() {
        kani::assume(l.size <= N as i32);
        let hdr = n - h.as_slice().len();
        let as_set: bool = kani::any();
        let mut p = ThriftSliceInputProtocol::new(&bytes[..n]);
        let r = p.skip_till_depth(if as_set { FieldType::Set } else { FieldType::List }, 2);
        if r.is_ok() {
            let used = n - p.as_slice().len();
            assert!(used >= hdr + l.size as usize, "every skipped collection element occupies at least one byte");
        }
        kani::cover!(r.is_ok() && l.size == 3 && l.element_type == ElementType::Bool, "list<bool> of 3 skipped");
        kani::cover!(r.is_ok() && l.size == 2 && l.element_type == ElementType::Binary, "list<binary> skipped");
        kani::cover!(r.is_err() && l.size > 0, "short input rejected");
    }
}

//@ tier: quick
//@ functions: parquet::parquet_thrift::ThriftCompactInputProtocol::skip_till_depth for Map
//@ bound: every byte string of length 0..=8 announcing <= 4 map entries: success implies >= size header + kv-type byte + two bytes per entry consumed; depth 2; unwind 12
//@ stub: alloc::fmt::format -> empty String
#[kani::proof]
#[kani::unwind(12)]
#[kani::stub(alloc::fmt::format, stub_format)]
fn c08_thrift_skip_map_consumes_entries() {
    const N: usize = 8;
    let bytes: [u8; N] = kani::any();
    let n: usize = kani::any();
    kani::assume(n <= N);
    let mut h = ThriftSliceInputProtocol::new(&bytes[..n]);
    if let Ok(sz) = h.read_vlq() {
        kani::assume(sz <= 4);
        let hdr = n - h.as_slice().len();
        let mut p = ThriftSliceInputProtocol::new(&bytes[..n]);
        let r = p.skip_till_depth(FieldType::Map, 2);
        if r.is_ok() {
            let used = n - p.as_slice().len();
            assert!(used >= hdr + if sz > 0 { 1 + 2 * sz as usize } else { 0 }, "every map entry occupies at least two bytes");
        }
        kani::cover!(r.is_ok() && sz == 2, "two entries skipped");
        kani::cover!(r.is_ok() && sz == 1 && n > 2 && (bytes[1] >> 4) <= 2, "bool key");
    }
}

//@ tier: quick
//@ unwind_is_violation: yes
//@ functions: parquet::parquet_thrift::ThriftCompactInputProtocol::{skip, skip_till_depth} for List, Set, Map, Struct
//@ bound: termination bound: on every byte string of length 0..=5 and every field type, skip_till_depth (depth 2) performs at most 7 iterations of any loop (unwinding assertions ON with unwind 8): the work is bounded by the bytes present, not by an announced element count
//@ stub: alloc::fmt::format -> empty String
#[kani::proof]
#[kani::unwind(8)]
#[kani::stub(alloc::fmt::format, stub_format)]
fn c08_thrift_skip_terminates_within_input() {
    const N: usize = 5;
    let bytes: [u8; N] = kani::any();
    let n: usize = kani::any();
    kani::assume(n <= N);
    let t: u8 = kani::any();
    if let Ok(ft) = FieldType::try_from(t) {
        let mut p = ThriftSliceInputProtocol::new(&bytes[..n]);
        let r = p.skip_till_depth(ft, 2);
        assert!(p.as_slice().len() <= n);
        kani::cover!(r.is_ok() && ft == FieldType::List && n == N, "list skipped");
        kani::cover!(r.is_err() && ft == FieldType::Map, "map rejected");
    }
}

static mut CAP_LIMIT: usize = 0;
fn checked_with_capacity<T>(cap: usize) -> Vec<T> {
    // the reservation a decoder makes up front must be bounded by the input present (each element
    // needs >= 1 byte) plus a small constant, never by an announced length alone
    unsafe {
        assert!(cap <= CAP_LIMIT, "ALLOC-UNBOUNDED: Vec::with_capacity request exceeds what the input can justify");
    }
    Vec::new()
}

//@ tier: quick
//@ functions: parquet::parquet_thrift::read_thrift_vec::<i32> (and the Vec reservation it makes), validate_list_type
//@ bound: every byte string of length 0..=7 as a thrift list<i32>: the up-front Vec::with_capacity request is <= 1024 + bytes present; Ok => one element per >= 1 byte; unwind 9
//@ stub: alloc::fmt::format -> empty String
//@ stub: Vec::<i32>::with_capacity -> asserts the requested capacity against the bound, then allocates nothing
#[kani::proof]
#[kani::unwind(9)]
#[kani::stub(alloc::fmt::format, stub_format)]
#[kani::stub(std::vec::Vec::with_capacity, checked_with_capacity)]
fn c08_thrift_vec_allocation_bounded() {
    const N: usize = 7;
    let bytes: [u8; N] = kani::any();
    let n: usize = kani::any();
    kani::assume(n <= N);
    unsafe {
        CAP_LIMIT = 1024 + n;
    }
    let mut p = ThriftSliceInputProtocol::new(&bytes[..n]);
    let r: Result<Vec<i32>> = read_thrift_vec(&mut p);
    if let Ok(v) = &r {
        assert!(v.is_empty() || v.len() < n, "elements need bytes");
        kani::cover!(v.len() == 3);
    }
    kani::cover!(r.is_err() && bytes[0] == 0xF5, "long list header rejected for lack of bytes");
    std::mem::forget(r);
}
