//@ property: C08
//@ crate: arrow-avro
//@ target: arrow-avro/src/reader/cursor.rs
// Child module of arrow-avro/src/reader/cursor.rs.
use super::*;

fn stub_format(_a: std::fmt::Arguments<'_>) -> String {
    String::new()
}

//@ tier: quick
//@ functions: arrow_avro::reader::cursor::AvroCursor::{get_int, get_long, read_vlq, get_bytes, get_fixed, get_u8, get_bool, get_float, get_double, position}
//@ bound: every byte string of length 0..=11: no panic; every Ok advances the cursor by <= bytes present; get_bytes returns a slice inside the input whose length is the decoded (non-negative) long; unwind 13
//@ stub: alloc::fmt::format -> empty String
#[kani::proof]
#[kani::unwind(13)]
#[kani::stub(alloc::fmt::format, stub_format)]
fn c08_avro_cursor_total() {
    const N: usize = 11;
    let bytes: [u8; N] = kani::any();
    let n: usize = kani::any();
    kani::assume(n <= N);
    let input = &bytes[..n];
    let mut c = AvroCursor::new(input);
    let r = c.get_long();
    if r.is_ok() {
        assert!(c.position() >= 1 && c.position() <= n);
    } else {
        assert!(c.position() == 0, "failed read does not move");
    }
    std::mem::forget(r);
    let mut c = AvroCursor::new(input);
    let r = c.get_bytes();
    if let Ok(b) = &r {
        assert!(c.position() <= n && b.len() < c.position() || b.is_empty(), "payload inside the input");
        kani::cover!(b.len() == 4, "4-byte payload");
    }
    std::mem::forget(r);
    let mut c = AvroCursor::new(input);
    let k: usize = kani::any();
    let r = c.get_fixed(k);
    if let Ok(b) = &r {
        assert!(b.len() == k && k <= n && c.position() == k);
    } else {
        assert!(k > n);
    }
    std::mem::forget(r);
    let mut c = AvroCursor::new(input);
    let r1 = c.get_float();
    let r2 = c.get_double();
    assert!(r1.is_ok() == (n >= 4));
    assert!(r2.is_ok() == (n >= 4 + 8) || r1.is_err());
    std::mem::forget(r1);
    std::mem::forget(r2);
    kani::cover!(n == N);
}

//@ tier: quick
//@ functions: arrow_avro::reader::cursor::AvroCursor::{get_long, skip_long}, vlq::{read_varint, skip_varint}
//@ bound: every byte string of length 0..=11: skip_long accepts exactly the inputs get_long accepts and consumes the same number of bytes (projection-skipped fields stay in step with decoded ones); unwind 13
//@ stub: alloc::fmt::format -> empty String
#[kani::proof]
#[kani::unwind(13)]
#[kani::stub(alloc::fmt::format, stub_format)]
fn c08_avro_skip_long_agrees_with_get_long() {
    const N: usize = 11;
    let bytes: [u8; N] = kani::any();
    let n: usize = kani::any();
    kani::assume(n <= N);
    let input = &bytes[..n];
    let mut c = AvroCursor::new(input);
    let g = c.get_long();
    let mut d = AvroCursor::new(input);
    let s = d.skip_long();
    assert!(g.is_ok() == s.is_ok(), "same accept/reject");
    if g.is_ok() {
        assert!(c.position() == d.position(), "same bytes consumed");
    }
    kani::cover!(g.is_ok() && c.position() == 10);
    kani::cover!(g.is_err() && n == N);
    std::mem::forget(g);
    std::mem::forget(s);
}

//@ tier: quick
//@ functions: arrow_avro::reader::cursor::AvroCursor::{get_int, skip_int}
//@ bound: every byte string of length 0..=7: whenever get_int succeeds on a canonical (shortest-form, <= 5 byte) encoding skip_int succeeds and consumes the same bytes; whenever skip_int succeeds get_int succeeds with the same length; unwind 9
//@ assume: over-long (non-canonical, > 5 byte) encodings of small values are excluded from the first direction: get_int accepts them (value fits u32) while skip_int rejects any varint longer than 5 bytes - a documented approximation in skip_int, no Avro writer emits them
//@ stub: alloc::fmt::format -> empty String
#[kani::proof]
#[kani::unwind(9)]
#[kani::stub(alloc::fmt::format, stub_format)]
fn c08_avro_skip_int_agrees_with_get_int() {
    const N: usize = 7;
    let bytes: [u8; N] = kani::any();
    let n: usize = kani::any();
    kani::assume(n <= N);
    let input = &bytes[..n];
    let mut c = AvroCursor::new(input);
    let g = c.get_int();
    let mut d = AvroCursor::new(input);
    let s = d.skip_int();
    if s.is_ok() {
        assert!(g.is_ok() && c.position() == d.position(), "skip accepted => get accepts, same length");
    }
    if g.is_ok() && c.position() <= 5 {
        assert!(s.is_ok(), "get accepted a <= 5 byte encoding => skip accepts");
    }
    kani::cover!(g.is_ok() && c.position() == 5);
    kani::cover!(g.is_ok() && s.is_err(), "over-long encoding: get accepts, skip rejects");
    kani::cover!(g.is_err() && n >= 5);
    std::mem::forget(g);
    std::mem::forget(s);
}
