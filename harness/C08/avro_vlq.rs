//@ property: C08
//@ crate: arrow-avro
//@ target: arrow-avro/src/reader/vlq.rs
// Child module of arrow-avro/src/reader/vlq.rs.
use super::*;

//@ tier: quick
//@ functions: arrow_avro::reader::vlq::{read_varint, read_varint_array, read_varint_slow, skip_varint, skip_varint_array, skip_varint_slow}
//@ bound: every byte string of length 0..=12: the array fast path and the slow path agree (value and length), accept at most 10 bytes with a final byte < 2, never panic; skip_varint agrees with read_varint on accept/reject and length; unwind 13
#[kani::proof]
#[kani::unwind(13)]
fn c08_avro_varint_paths_agree() {
    let bytes: [u8; 12] = kani::any();
    let n: usize = kani::any();
    kani::assume(n <= 12);
    let input = &bytes[..n];
    let a = read_varint(input);
    let b = read_varint_slow(input);
    assert!(a == b, "fast and slow varint readers agree");
    let s = skip_varint(input);
    assert!(s == a.map(|x| x.1), "skip consumes exactly what read consumes");
    if let Some((v, len)) = a {
        assert!(len >= 1 && len <= 10 && len <= n, "length within input");
        assert!(bytes[len - 1] < 0x80, "terminated");
        if len == 10 {
            assert!(bytes[9] < 2, "tenth byte may only carry one bit");
        }
        if len == 1 {
            assert!(v == bytes[0] as u64);
        }
    }
    kani::cover!(matches!(a, Some((_, 10))) && n == 12, "ten-byte varint via the array path");
    kani::cover!(matches!(a, Some((_, 3))) && n == 5, "slow path");
    kani::cover!(a.is_none() && n >= 10, "overlong rejected");
}
