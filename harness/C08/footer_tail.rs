//@ property: C08
//@ crate: parquet
//@ target: parquet/src/file/metadata/footer_tail.rs
// Child module of parquet/src/file/metadata/footer_tail.rs: the last 8 bytes of a Parquet file (also what decides
// whether a truncated file is rejected before any metadata is parsed).
use super::*;

fn stub_format(_a: std::fmt::Arguments<'_>) -> String {
    String::new()
}

//@ tier: quick
//@ functions: parquet::file::metadata::FooterTail::{try_new, metadata_length, is_encrypted_footer}
//@ bound: every 8-byte tail: accepted exactly when the last four bytes are the magic PAR1 (plain) or PARE (encrypted footer); then the metadata length is the little-endian u32 of the first four bytes and the encryption flag follows the magic; no panic
//@ stub: alloc::fmt::format -> empty String
#[kani::proof]
#[kani::unwind(6)]
#[kani::stub(alloc::fmt::format, stub_format)]
fn c08_footer_tail_accepts_exactly_the_magic() {
    let t: [u8; 8] = kani::any();
    let r = FooterTail::try_new(&t);
    let plain = t[4] == b'P' && t[5] == b'A' && t[6] == b'R' && t[7] == b'1';
    let encr = t[4] == b'P' && t[5] == b'A' && t[6] == b'R' && t[7] == b'E';
    match &r {
        Ok(f) => {
            assert!(plain || encr, "accepted only with a Parquet magic");
            assert!(f.metadata_length() == u32::from_le_bytes([t[0], t[1], t[2], t[3]]) as usize);
            assert!(f.is_encrypted_footer() == encr);
        }
        Err(_) => assert!(!plain && !encr, "a well-formed tail is not rejected"),
    }
    kani::cover!(r.is_ok() && encr);
    kani::cover!(r.is_err() && t[4] == b'P' && t[5] == b'A' && t[6] == b'R');
    std::mem::forget(r);
}
