//@ property: C08
//@ crate: parquet-variant
//@ target: parquet-variant/src/decoder.rs
// Child module of parquet-variant/src/decoder.rs: the fixed-width primitive decoders of the Variant binary format on
// a value section of ARBITRARY length (truncated values included): an error or the decoded value, never a panic.
use super::*;

fn stub_format(_a: std::fmt::Arguments<'_>) -> String {
    String::new()
}

macro_rules! decoder_total {
    ($name:ident, $f:ident, $need:expr) => {
        #[kani::proof]
        #[kani::unwind(4)]
        #[kani::stub(alloc::fmt::format, stub_format)]
        fn $name() {
            let data: [u8; 20] = kani::any();
            let n: usize = kani::any();
            kani::assume(n <= 20);
            let r = $f(&data[..n]);
            let ok = r.is_ok();
            std::mem::forget(r);
            assert!(ok == (n >= $need), "decodes exactly when the value section holds all the bytes of the value");
            kani::cover!(ok);
            kani::cover!(!ok && n + 1 == $need, "one byte short");
        }
    };
}

//@ tier: quick
//@ functions: parquet_variant::decoder::decode_uuid, utils::{array_from_slice, slice_from_slice_at_offset}
//@ bound: value section of every length 0..=20 with arbitrary bytes: Ok iff at least 16 bytes are present, otherwise Err — no panic (slice index) on a truncated value
//@ stub: alloc::fmt::format -> empty String
decoder_total!(c08_variant_decode_uuid_total, decode_uuid, 16);
//@ tier: quick
//@ functions: parquet_variant::decoder::decode_decimal16
//@ bound: value section of every length 0..=20: Ok iff at least 17 bytes (scale + 16-byte integer), no panic
//@ stub: alloc::fmt::format -> empty String
decoder_total!(c08_variant_decode_decimal16_total, decode_decimal16, 17);
//@ tier: quick
//@ functions: parquet_variant::decoder::decode_decimal8
//@ bound: value section of every length 0..=20: Ok iff at least 9 bytes, no panic
//@ stub: alloc::fmt::format -> empty String
decoder_total!(c08_variant_decode_decimal8_total, decode_decimal8, 9);
//@ tier: quick
//@ functions: parquet_variant::decoder::decode_decimal4
//@ bound: value section of every length 0..=20: Ok iff at least 5 bytes, no panic
//@ stub: alloc::fmt::format -> empty String
decoder_total!(c08_variant_decode_decimal4_total, decode_decimal4, 5);
//@ tier: quick
//@ functions: parquet_variant::decoder::decode_int64
//@ bound: value section of every length 0..=20: Ok iff at least 8 bytes, no panic
//@ stub: alloc::fmt::format -> empty String
decoder_total!(c08_variant_decode_int64_total, decode_int64, 8);
//@ tier: quick
//@ functions: parquet_variant::decoder::decode_int16
//@ bound: value section of every length 0..=20: Ok iff at least 2 bytes, no panic
//@ stub: alloc::fmt::format -> empty String
decoder_total!(c08_variant_decode_int16_total, decode_int16, 2);
//@ tier: quick
//@ functions: parquet_variant::decoder::decode_double
//@ bound: value section of every length 0..=20: Ok iff at least 8 bytes, no panic
//@ stub: alloc::fmt::format -> empty String
decoder_total!(c08_variant_decode_double_total, decode_double, 8);

//@ tier: quick
//@ functions: parquet_variant::decoder::decode_binary
//@ bound: value section of every length 0..=20 with arbitrary bytes (so an arbitrary 32-bit length prefix): Ok iff 4 + declared length <= available bytes, and then exactly the declared bytes; no panic, no overflow
//@ stub: alloc::fmt::format -> empty String
#[kani::proof]
#[kani::unwind(4)]
#[kani::stub(alloc::fmt::format, stub_format)]
fn c08_variant_decode_binary_total() {
    let data: [u8; 20] = kani::any();
    let n: usize = kani::any();
    kani::assume(n <= 20);
    let r = decode_binary(&data[..n]);
    match &r {
        Ok(b) => {
            let len = u32::from_le_bytes([data[0], data[1], data[2], data[3]]) as usize;
            assert!(n >= 4 && b.len() == len && 4 + len <= n, "the declared bytes, all inside the input");
            let k: usize = kani::any();
            kani::assume(k < len);
            assert!(b[k] == data[4 + k]);
        }
        Err(_) => {
            assert!(n < 4 || 4 + (u32::from_le_bytes([data[0], data[1], data[2], data[3]]) as usize) > n, "rejected only when bytes are missing");
        }
    }
    kani::cover!(r.is_ok() && n == 20);
    kani::cover!(r.is_err() && n >= 4, "inflated length prefix");
    std::mem::forget(r);
}
