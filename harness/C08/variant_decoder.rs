//@ property: C08
//@ crate: parquet-variant
//@ target: parquet-variant/src/decoder.rs
// Child module of parquet-variant/src/decoder.rs: the fixed-width primitive decoders of the Variant binary format on
// a value section of ARBITRARY length (truncated values included): an error or the decoded value, never a panic.
use super::*;

fn stub_format(_a: std::fmt::Arguments<'_>) -> String {
    String::new()
}

macro_rules! decoder_total {
    ($name:ident, $f:ident, $need:expr) => {
        #[kani::proof]
        #[kani::unwind(4)]
        #[kani::stub(alloc::fmt::format, stub_format)]
        fn $name() {
            let data: [u8; 20] = kani::any();
            let n: usize = kani::any();
            kani::assume(n <= 20);
            let r = $f(&data[..n]);
            let ok = r.is_ok();
            std::mem::forget(r);
            assert!(ok == (n >= $need), "decodes exactly when the value section holds all the bytes of the value");
            kani::cover!(ok);
            kani::cover!(!ok && n + 1 == $need, "one byte short");
        }
    };
}

//@ tier: quick
//@ functions: parquet_variant::decoder::decode_uuid, utils::{array_from_slice, slice_from_slice_at_offset}
//@ bound: value section of every length 0..=20 with arbitrary bytes: Ok iff at least 16 bytes are present, otherwise Err — no panic (slice index) on a truncated value
//@ stub: alloc::fmt::format -> empty String
decoder_total!(c08_variant_decode_uuid_total, decode_uuid, 16);
//@ tier: quick
//@ functions: parquet_variant::decoder::decode_decimal16
//@ bound: value section of every length 0..=20: Ok iff at least 17 bytes (scale + 16-byte integer), no panic
//@ stub: alloc::fmt::format -> empty String
decoder_total!(c08_variant_decode_decimal16_total, decode_decimal16, 17);
//@ tier: quick
//@ functions: parquet_variant::decoder::decode_decimal8
//@ bound: value section of every length 0..=20: Ok iff at least 9 bytes, no panic
//@ stub: alloc::fmt::format -> empty String
decoder_total!(c08_variant_decode_decimal8_total, decode_decimal8, 9);
//@ tier: quick
//@ functions: parquet_variant::decoder::decode_decimal4
//@ bound: value section of every length 0..=20: Ok iff at least 5 bytes, no panic
//@ stub: alloc::fmt::format -> empty String
decoder_total!(c08_variant_decode_decimal4_total, decode_decimal4, 5);
//@ tier: quick
//@ functions: parquet_variant::decoder::decode_int64
//@ bound: value section of every length 0..=20: Ok iff at least 8 bytes, no panic
//@ stub: alloc::fmt::format -> empty String
decoder_total!(c08_variant_decode_int64_total, decode_int64, 8);
//@ tier: quick
//@ functions: parquet_variant::decoder::decode_int16
//@ bound: value section of every length 0..=20: Ok iff at least 2 bytes, no panic
//@ stub: alloc::fmt::format -> empty String
decoder_total!(c08_variant_decode_int16_total, decode_int16, 2);
//@ tier: quick
//@ functions: parquet_variant::decoder::decode_double
//@ bound: value section of every length 0..=20: Ok iff at least 8 bytes, no panic
//@ stub: alloc::fmt::format -> empty String
decoder_total!(c08_variant_decode_double_total, decode_double, 8);

//@ tier: quick
//@ functions: parquet_variant::decoder::decode_binary
//@ bound: value section of every length 0..=20 with arbitrary bytes (so an arbitrary 32-bit length prefix): Ok iff 4 + declared length <= available bytes, and then exactly the declared bytes; no panic, no overflow
//@ stub: alloc::fmt::format -> empty String
#[kani::proof]
#[kani::unwind(4)]
#[kani::stub(alloc::fmt::format, stub_format)]
fn c08_variant_decode_binary_total() {
    let data: [u8; 20] = kani::any();
    let n: usize = kani::any();
    kani::assume(n <= 20);
    let r = decode_binary(&data[..n]);
    match &r {
        Ok(b) => {
            let len = u32::from_le_bytes([data[0], data[1], data[2], data[3]]) as usize;
            assert!(n >= 4 && b.len() == len && 4 + len <= n, "the declared bytes, all inside the input");
            let k: usize = kani::any();
            kani::assume(k < len);
            assert!(b[k] == data[4 + k]);
        }
        Err(_) => {
            assert!(n < 4 || 4 + (u32::from_le_bytes([data[0], data[1], data[2], data[3]]) as usize) > n, "rejected only when bytes are missing");
        }
    }
    kani::cover!(r.is_ok() && n == 20);
    kani::cover!(r.is_err() && n >= 4, "inflated length prefix");
    std::mem::forget(r);
}

//@ tier: quick
//@ functions: parquet_variant::decoder::OffsetSizeBytes::{try_new, unpack_u32_at_offset, unpack_u32}
//@ bound: every width code 0..=255, buffer of every length 0..=12 with arbitrary bytes, ARBITRARY usize byte offset and index (overflow included): Err for width codes above 3, for arithmetic overflow and when the value does not lie inside the buffer; otherwise exactly the little-endian value of `width` bytes at byte_offset + width * index, zero-extended; no panic
//@ stub: alloc::fmt::format -> empty String
#[kani::proof]
#[kani::unwind(6)]
#[kani::stub(alloc::fmt::format, stub_format)]
fn c08_variant_unpack_u32_total() {
    let code: u8 = kani::any();
    let w = OffsetSizeBytes::try_new(code);
    match &w {
        Err(_) => assert!(code > 3),
        Ok(sz) => {
            assert!(code <= 3 && *sz as u8 == code + 1);
            let data: [u8; 12] = kani::any();
            let n: usize = kani::any();
            kani::assume(n <= 12);
            let off: usize = kani::any();
            let idx: usize = kani::any();
            let width = code as usize + 1;
            let r = sz.unpack_u32_at_offset(&data[..n], off, idx);
            let pos = idx.checked_mul(width).and_then(|x| x.checked_add(off));
            let inside = match pos {
                Some(p) => p <= n && width <= n - p,
                None => false,
            };
            match &r {
                Ok(v) => {
                    assert!(inside, "a value is returned only from inside the buffer");
                    let p = pos.unwrap();
                    let mut want = 0u32;
                    let mut k = 0;
                    while k < 4 {
                        if k < width {
                            want |= (data[p + k] as u32) << (8 * k);
                        }
                        k += 1;
                    }
                    assert!(*v == want, "little-endian value of `width` bytes, zero-extended");
                }
                Err(_) => assert!(!inside, "rejected only when the value is not inside the buffer"),
            }
            kani::cover!(r.is_ok() && width == 3 && idx == 2);
            kani::cover!(r.is_err() && pos.is_none(), "index arithmetic overflows");
            std::mem::forget(r);
        }
    }
    std::mem::forget(w);
}

//@ tier: quick
//@ timeout: 900
//@ functions: parquet_variant::decoder::decode_date, chrono::{DateTime + TimeDelta, TimeDelta::days, DateTime::date_naive}
//@ bound: value section of every length 0..=6 with arbitrary bytes, i.e. EVERY 32-bit day count: an error or a date, never a panic (chrono's `+` panics when the sum leaves its representable range); a result is returned only when the 4 bytes are present
//@ stub: alloc::fmt::format -> empty String
#[kani::proof]
#[kani::unwind(4)]
#[kani::stub(alloc::fmt::format, stub_format)]
fn c08_variant_decode_date_total() {
    let data: [u8; 6] = kani::any();
    let n: usize = kani::any();
    kani::assume(n <= 6);
    let r = decode_date(&data[..n]);
    let ok = r.is_ok();
    std::mem::forget(r);
    assert!(!ok || n >= 4, "a date is decoded only from 4 present bytes");
    let days = i32::from_le_bytes([data[0], data[1], data[2], data[3]]);
    kani::cover!(ok && days == 19_000, "an ordinary date decodes");
    kani::cover!(ok && days < -700_000, "a date before year 1 decodes");
}

macro_rules! decoder_never_panics {
    ($name:ident, $f:ident, $need:expr) => {
        #[kani::proof]
        #[kani::unwind(4)]
        #[kani::stub(alloc::fmt::format, stub_format)]
        fn $name() {
            let data: [u8; 10] = kani::any();
            let n: usize = kani::any();
            kani::assume(n <= 10);
            let r = $f(&data[..n]);
            let ok = r.is_ok();
            std::mem::forget(r);
            assert!(!ok || n >= $need, "a value is decoded only from its full width");
            kani::cover!(ok);
            kani::cover!(!ok && n >= $need, "all bytes present but the value is out of range");
        }
    };
}

//@ tier: quick
//@ timeout: 900
//@ functions: parquet_variant::decoder::decode_timestamp_micros, chrono::DateTime::from_timestamp_micros
//@ bound: value section of every length 0..=10, i.e. every 64-bit microsecond count: an error or a timestamp, never a panic
//@ stub: alloc::fmt::format -> empty String
decoder_never_panics!(c08_variant_decode_timestamp_micros_total, decode_timestamp_micros, 8);
//@ tier: quick
//@ timeout: 900
//@ functions: parquet_variant::decoder::decode_time_ntz, chrono::NaiveTime::from_num_seconds_from_midnight_opt
//@ bound: value section of every length 0..=10, i.e. every 64-bit microsecond-of-day count: an error or a time of day, never a panic or an arithmetic overflow
//@ stub: alloc::fmt::format -> empty String
decoder_never_panics!(c08_variant_decode_time_ntz_total, decode_time_ntz, 8);
