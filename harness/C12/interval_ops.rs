//@ property: C12
//@ crate: arrow-arith
//@ target: arrow-arith/src/numeric.rs
// Child module of arrow-arith/src/numeric.rs: the checked interval arithmetic behind add / sub / mul of
// Interval(YearMonth | DayTime | MonthDayNano) columns (IntervalOp impls and mul_i32_i64).
use super::*;

fn stub_format(_a: std::fmt::Arguments<'_>) -> String {
    String::new()
}

// mul_i32_i64 is exact or an error: Ok(v) iff the mathematical product fits an i32, and then v is that product.
// The reference product is formed in i128 (a 32-bit by 64-bit product needs 95 bits).
fn check_mul_i32_i64(left: i32, right: i64) -> bool {
    let exact = (left as i128) * (right as i128);
    let fits = exact >= i32::MIN as i128 && exact <= i32::MAX as i128;
    let r = mul_i32_i64(left, right);
    let ok = match &r {
        Ok(v) => {
            assert!(fits, "mul_i32_i64 returned a value although the exact product does not fit an i32 (wrapped)");
            assert!(*v as i128 == exact, "mul_i32_i64 returned a value that is not the exact product");
            true
        }
        Err(_) => {
            assert!(!fits, "mul_i32_i64 reported overflow for a representable product");
            false
        }
    };
    std::mem::forget(r);
    ok
}

//@ tier: quick
//@ timeout: 600
//@ functions: arrow_arith::numeric::mul_i32_i64 (i64::mul_checked + i32::try_from)
//@ bound: left a constant from {0, 1, -1, 2, 3, 4, 10, 1000, i32::MAX, i32::MIN}, right EVERY i64: exact product (i128 reference) or error, never a wrapped value
//@ stub: alloc::fmt::format -> empty String (error message content is outside the claim)
#[kani::proof]
#[kani::stub(alloc::fmt::format, stub_format)]
fn c12_interval_mul_i32_i64_const_left() {
    let right: i64 = kani::any();
    check_mul_i32_i64(0, right);
    check_mul_i32_i64(1, right);
    check_mul_i32_i64(-1, right);
    let two = check_mul_i32_i64(2, right);
    check_mul_i32_i64(3, right);
    check_mul_i32_i64(4, right);
    check_mul_i32_i64(10, right);
    check_mul_i32_i64(1000, right);
    check_mul_i32_i64(i32::MAX, right);
    check_mul_i32_i64(i32::MIN, right);
    kani::cover!(two && right > 1000, "a product that fits");
    kani::cover!(!two && right == i64::MIN, "2 * i64::MIN overflows 64 bits (wraps to 0)");
    kani::cover!(!two && right == 1 << 31, "2 * 2^31 overflows only the i32 result");
}

//@ tier: quick
//@ timeout: 600
//@ functions: arrow_arith::numeric::mul_i32_i64
//@ bound: right a constant from {0, 1, -1, 2, 3, 1 << 31, 1 << 32, 1 << 62, i64::MAX, i64::MIN, 0x5555_5555_5555_5556}, left EVERY i32: exact product or error
//@ stub: alloc::fmt::format -> empty String
#[kani::proof]
#[kani::stub(alloc::fmt::format, stub_format)]
fn c12_interval_mul_i32_i64_const_right() {
    let left: i32 = kani::any();
    check_mul_i32_i64(left, 0);
    check_mul_i32_i64(left, 1);
    check_mul_i32_i64(left, -1);
    let two = check_mul_i32_i64(left, 2);
    check_mul_i32_i64(left, 3);
    check_mul_i32_i64(left, 1 << 31);
    check_mul_i32_i64(left, 1 << 32);
    let big = check_mul_i32_i64(left, 1 << 62);
    check_mul_i32_i64(left, i64::MAX);
    check_mul_i32_i64(left, i64::MIN);
    check_mul_i32_i64(left, 0x5555_5555_5555_5556);
    kani::cover!(two && left > 1000, "a product that fits");
    kani::cover!(!two, "overflow of the i32 result");
    kani::cover!(!big && left == 4, "4 * 2^62 overflows 64 bits (wraps to 0)");
}

//@ tier: quick
//@ timeout: 900
//@ functions: arrow_arith::numeric::mul_i32_i64
//@ bound: left EVERY value in -16..=16 (symbolic), right EVERY i64: exact product or error (a symbolic 6-bit by 64-bit product; wider symbolic multipliers are outside what the SAT back end decides)
//@ stub: alloc::fmt::format -> empty String
#[kani::proof]
#[kani::stub(alloc::fmt::format, stub_format)]
fn c12_interval_mul_i32_i64_small_left() {
    let left: i32 = kani::any();
    kani::assume(left >= -16 && left <= 16);
    let right: i64 = kani::any();
    let ok = check_mul_i32_i64(left, right);
    kani::cover!(ok && left > 2 && right > 1000);
    kani::cover!(!ok && left > 2);
}

//@ tier: quick
//@ timeout: 600
//@ functions: <IntervalYearMonthType as IntervalOp>::{add, sub}, <IntervalDayTimeType as IntervalOp>::{add, sub}, IntervalDayTimeType::{to_parts, make_value}
//@ bound: EVERY pair of YearMonth / DayTime intervals: add and sub are componentwise exact (i64 reference) or an error exactly when some component leaves the i32 range; a field never carries into its neighbour
//@ stub: alloc::fmt::format -> empty String
#[kani::proof]
#[kani::stub(alloc::fmt::format, stub_format)]
fn c12_interval_add_sub_year_month_day_time() {
    let a: i32 = kani::any();
    let b: i32 = kani::any();
    let fits = |v: i64| v >= i32::MIN as i64 && v <= i32::MAX as i64;
    let r = <IntervalYearMonthType as IntervalOp>::add(a, b);
    match &r {
        Ok(v) => assert!(*v as i64 == a as i64 + b as i64, "YearMonth add exact"),
        Err(_) => assert!(!fits(a as i64 + b as i64), "YearMonth add errs only on overflow"),
    }
    std::mem::forget(r);
    let r = <IntervalYearMonthType as IntervalOp>::sub(a, b);
    match &r {
        Ok(v) => assert!(*v as i64 == a as i64 - b as i64, "YearMonth sub exact"),
        Err(_) => assert!(!fits(a as i64 - b as i64), "YearMonth sub errs only on overflow"),
    }
    std::mem::forget(r);

    let (d1, m1, d2, m2): (i32, i32, i32, i32) = kani::any();
    let x = IntervalDayTimeType::make_value(d1, m1);
    let y = IntervalDayTimeType::make_value(d2, m2);
    let r = <IntervalDayTimeType as IntervalOp>::add(x, y);
    let (ed, em) = (d1 as i64 + d2 as i64, m1 as i64 + m2 as i64);
    match &r {
        Ok(v) => {
            let (d, m) = IntervalDayTimeType::to_parts(*v);
            assert!(d as i64 == ed && m as i64 == em, "DayTime add is componentwise exact");
        }
        Err(_) => assert!(!fits(ed) || !fits(em), "DayTime add errs only when a component overflows"),
    }
    kani::cover!(r.is_ok() && d1 > 0 && m2 < 0);
    kani::cover!(r.is_err() && fits(ed), "only the millisecond component overflows");
    std::mem::forget(r);
    let r = <IntervalDayTimeType as IntervalOp>::sub(x, y);
    let (ed, em) = (d1 as i64 - d2 as i64, m1 as i64 - m2 as i64);
    match &r {
        Ok(v) => {
            let (d, m) = IntervalDayTimeType::to_parts(*v);
            assert!(d as i64 == ed && m as i64 == em, "DayTime sub is componentwise exact");
        }
        Err(_) => assert!(!fits(ed) || !fits(em), "DayTime sub errs only when a component overflows"),
    }
    std::mem::forget(r);
}

//@ tier: quick
//@ timeout: 600
//@ functions: <IntervalMonthDayNanoType as IntervalOp>::{add, sub}, IntervalMonthDayNanoType::{to_parts, make_value}
//@ bound: EVERY pair of MonthDayNano intervals: add and sub are componentwise exact (i64 / i128 reference) or an error exactly when months or days leave i32 or nanoseconds leave i64
//@ stub: alloc::fmt::format -> empty String
#[kani::proof]
#[kani::stub(alloc::fmt::format, stub_format)]
fn c12_interval_add_sub_month_day_nano() {
    let (m1, d1, n1): (i32, i32, i64) = kani::any();
    let (m2, d2, n2): (i32, i32, i64) = kani::any();
    let fits32 = |v: i64| v >= i32::MIN as i64 && v <= i32::MAX as i64;
    let fits64 = |v: i128| v >= i64::MIN as i128 && v <= i64::MAX as i128;
    let x = IntervalMonthDayNanoType::make_value(m1, d1, n1);
    let y = IntervalMonthDayNanoType::make_value(m2, d2, n2);
    let r = <IntervalMonthDayNanoType as IntervalOp>::add(x, y);
    let (em, ed, en) = (m1 as i64 + m2 as i64, d1 as i64 + d2 as i64, n1 as i128 + n2 as i128);
    match &r {
        Ok(v) => {
            let (m, d, n) = IntervalMonthDayNanoType::to_parts(*v);
            assert!(m as i64 == em && d as i64 == ed && n as i128 == en, "MonthDayNano add is componentwise exact");
        }
        Err(_) => assert!(!fits32(em) || !fits32(ed) || !fits64(en), "MonthDayNano add errs only on a component overflow"),
    }
    kani::cover!(r.is_ok() && n1 > 0 && d2 < 0);
    kani::cover!(r.is_err() && fits32(em) && fits32(ed), "only the nanosecond component overflows");
    std::mem::forget(r);
    let r = <IntervalMonthDayNanoType as IntervalOp>::sub(x, y);
    let (em, ed, en) = (m1 as i64 - m2 as i64, d1 as i64 - d2 as i64, n1 as i128 - n2 as i128);
    match &r {
        Ok(v) => {
            let (m, d, n) = IntervalMonthDayNanoType::to_parts(*v);
            assert!(m as i64 == em && d as i64 == ed && n as i128 == en, "MonthDayNano sub is componentwise exact");
        }
        Err(_) => assert!(!fits32(em) || !fits32(ed) || !fits64(en), "MonthDayNano sub errs only on a component overflow"),
    }
    std::mem::forget(r);
}

// mul_i64 of the compound intervals by a constant factor: every component is multiplied exactly or the whole
// operation errs.
fn check_mdn_mul(m: i32, d: i32, n: i64, f: i64) -> bool {
    let x = IntervalMonthDayNanoType::make_value(m, d, n);
    let r = <IntervalMonthDayNanoType as IntervalOp>::mul_i64(x, f);
    let (em, ed, en) = ((m as i128) * (f as i128), (d as i128) * (f as i128), (n as i128) * (f as i128));
    let fits32 = |v: i128| v >= i32::MIN as i128 && v <= i32::MAX as i128;
    let fits64 = |v: i128| v >= i64::MIN as i128 && v <= i64::MAX as i128;
    let ok = match &r {
        Ok(v) => {
            let (rm, rd, rn) = IntervalMonthDayNanoType::to_parts(*v);
            assert!(fits32(em) && fits32(ed) && fits64(en), "MonthDayNano * i64 returned a value although a component overflows");
            assert!(rm as i128 == em && rd as i128 == ed && rn as i128 == en, "MonthDayNano * i64 is componentwise exact");
            true
        }
        Err(_) => {
            assert!(!fits32(em) || !fits32(ed) || !fits64(en), "MonthDayNano * i64 errs only on a component overflow");
            false
        }
    };
    std::mem::forget(r);
    ok
}

//@ tier: quick
//@ timeout: 900
//@ functions: <IntervalMonthDayNanoType as IntervalOp>::mul_i64, <IntervalDayTimeType as IntervalOp>::mul_i64, mul_i32_i64
//@ bound: EVERY MonthDayNano / DayTime interval, factor a constant from {0, 1, -1, 2, 3, 1 << 31, 1 << 62, i64::MIN}: componentwise exact (i128 reference) or error
//@ stub: alloc::fmt::format -> empty String
#[kani::proof]
#[kani::stub(alloc::fmt::format, stub_format)]
fn c12_interval_mul_i64_const_factor() {
    let (m, d, n): (i32, i32, i64) = kani::any();
    check_mdn_mul(m, d, n, 0);
    check_mdn_mul(m, d, n, 1);
    check_mdn_mul(m, d, n, -1);
    let two = check_mdn_mul(m, d, n, 2);
    check_mdn_mul(m, d, n, 3);
    check_mdn_mul(m, d, n, 1 << 31);
    check_mdn_mul(m, d, n, 1 << 62);
    check_mdn_mul(m, d, n, i64::MIN);
    kani::cover!(two && m > 5 && d < -5 && n > 5);
    kani::cover!(!two && m == 0 && d == 0, "only the nanosecond component overflows");

    let (dd, ms): (i32, i32) = kani::any();
    let x = IntervalDayTimeType::make_value(dd, ms);
    let r = <IntervalDayTimeType as IntervalOp>::mul_i64(x, 1 << 62);
    match &r {
        Ok(v) => {
            assert!(dd == 0 && ms == 0, "DayTime * 2^62 fits only for the zero interval");
            let (rd, rm) = IntervalDayTimeType::to_parts(*v);
            assert!(rd == 0 && rm == 0);
        }
        Err(_) => assert!(dd != 0 || ms != 0),
    }
    std::mem::forget(r);
    let r = <IntervalDayTimeType as IntervalOp>::mul_i64(x, -3);
    let (ed, em) = (dd as i64 * -3, ms as i64 * -3);
    let fits = |v: i64| v >= i32::MIN as i64 && v <= i32::MAX as i64;
    match &r {
        Ok(v) => {
            let (rd, rm) = IntervalDayTimeType::to_parts(*v);
            assert!(rd as i64 == ed && rm as i64 == em, "DayTime * -3 is componentwise exact");
        }
        Err(_) => assert!(!fits(ed) || !fits(em)),
    }
    std::mem::forget(r);
}
