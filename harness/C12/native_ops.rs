//@ property: C12
//@ crate: arrow-array
//@ target: arrow-array/src/arithmetic.rs
// Child module of arrow-array/src/arithmetic.rs: ArrowNativeTypeOp checked / wrapping operations.
use super::*;

fn stub_format(_a: std::fmt::Arguments<'_>) -> String {
    String::new()
}

macro_rules! int_mul_wide {
    ($name:ident, $t:ty, $w:ty, $tier:literal) => {
        //@ tier: quick
        //@ timeout: 900
        //@ functions: arrow_array::ArrowNativeTypeOp::{mul_checked, mul_wrapping}
        //@ bound: full width, both operands arbitrary; exact product computed in a type at least twice as wide (independent reference); the 32-bit instances are in the thorough tier (200-500 s each)
        //@ stub: alloc::fmt::format -> empty String (error message content is outside the claim)
        #[kani::proof]
        #[kani::stub(alloc::fmt::format, stub_format)]
        fn $name() {
            let a: $t = kani::any();
            let b: $t = kani::any();
            let e = (a as $w) * (b as $w);
            match a.mul_checked(b) {
                Ok(r) => assert!(r as $w == e, "mul_checked exact"),
                Err(_) => assert!(e < <$t>::MIN as $w || e > <$t>::MAX as $w, "mul_checked errs only on overflow"),
            }
            assert!(a.mul_wrapping(b) == e as $t, "mul_wrapping = exact mod 2^w");
            kani::cover!(a.mul_checked(b).is_err(), "mul overflows");
            kani::cover!(a.mul_checked(b).is_ok() && a > 1 && b > 1, "mul fits");
        }
    };
}

int_mul_wide!(c12_native_mul_i8, i8, i32, "quick");
int_mul_wide!(c12_native_mul_u8, u8, i32, "quick");
int_mul_wide!(c12_native_mul_i16, i16, i32, "quick");
int_mul_wide!(c12_native_mul_u16, u16, u32, "quick");

macro_rules! int_mul_wide32 {
    ($name:ident, $t:ty, $w:ty) => {
        //@ tier: thorough
        //@ timeout: 2400
        //@ functions: arrow_array::ArrowNativeTypeOp::{mul_checked, mul_wrapping}
        //@ bound: full width 32-bit operands; exact product in 64 bits (independent reference)
        //@ stub: alloc::fmt::format -> empty String
        #[kani::proof]
        #[kani::stub(alloc::fmt::format, stub_format)]
        fn $name() {
            let a: $t = kani::any();
            let b: $t = kani::any();
            let e = (a as $w) * (b as $w);
            match a.mul_checked(b) {
                Ok(r) => assert!(r as $w == e, "mul_checked exact"),
                Err(_) => assert!(e < <$t>::MIN as $w || e > <$t>::MAX as $w, "mul_checked errs only on overflow"),
            }
            assert!(a.mul_wrapping(b) == e as $t, "mul_wrapping = exact mod 2^32");
            kani::cover!(a.mul_checked(b).is_err());
            kani::cover!(a.mul_checked(b).is_ok() && a > 1000 && b > 1000);
        }
    };
}

int_mul_wide32!(c12_native_mul32_signed, i32, i64);
int_mul_wide32!(c12_native_mul32_unsigned, u32, u64);

macro_rules! int_divmod_wide {
    ($name:ident, $t:ty, $w:ty) => {
        //@ tier: quick
        //@ timeout: 900
        //@ functions: arrow_array::ArrowNativeTypeOp::{div_checked, div_wrapping, mod_checked, mod_wrapping, is_zero}
        //@ bound: full width 8/16-bit operands; exact quotient and remainder computed in i32 (independent reference): DivideByZero iff rhs == 0, overflow only for MIN / -1 (and MIN % -1, which std's checked_rem reports as overflow)
        //@ stub: alloc::fmt::format -> empty String
        #[kani::proof]
        #[kani::stub(alloc::fmt::format, stub_format)]
        fn $name() {
            let a: $t = kani::any();
            let b: $t = kani::any();
            const MIN: $w = <$t>::MIN as $w;
            const MAX: $w = <$t>::MAX as $w;
            let (wa, wb) = (a as $w, b as $w);
            match a.div_checked(b) {
                Ok(r) => assert!(b != 0 && r as $w == wa / wb, "div_checked exact"),
                Err(ArrowError::DivideByZero) => assert!(b == 0, "DivideByZero iff rhs == 0"),
                Err(_) => assert!(b != 0 && (wa / wb < MIN || wa / wb > MAX), "div overflow"),
            }
            match a.mod_checked(b) {
                Ok(r) => assert!(b != 0 && r as $w == wa % wb, "mod_checked exact"),
                Err(ArrowError::DivideByZero) => assert!(b == 0, "DivideByZero iff rhs == 0"),
                Err(_) => assert!(b != 0 && MIN < 0 && wa == MIN && wb == -1, "mod_checked errs (std checked_rem) only for MIN % -1"),
            }
            if b != 0 && !(MIN < 0 && wa == MIN && wb == -1) {
                assert!(a.div_wrapping(b) as $w == wa / wb && a.mod_wrapping(b) as $w == wa % wb, "wrapping forms exact when defined");
            }
            assert!(a.is_zero() == (a == 0));
            kani::cover!(a.div_checked(b).is_ok() && b != 1, "div ok");
            kani::cover!(b == 0);
        }
    };
}

int_divmod_wide!(c12_native_divmod_i8, i8, i16);
int_divmod_wide!(c12_native_divmod_u8, u8, i16);

macro_rules! int_addsub_wide {
    ($name:ident, $t:ty, $w:ty) => {
        //@ tier: quick
        //@ functions: arrow_array::ArrowNativeTypeOp::{add,sub,neg}_{checked,wrapping}
        //@ bound: full width, exact result in a type twice as wide
        //@ stub: alloc::fmt::format -> empty String
        #[kani::proof]
        #[kani::stub(alloc::fmt::format, stub_format)]
        fn $name() {
            let a: $t = kani::any();
            let b: $t = kani::any();
            const MIN: $w = <$t>::MIN as $w;
            const MAX: $w = <$t>::MAX as $w;
            let (wa, wb) = (a as $w, b as $w);
            let e = wa + wb;
            match a.add_checked(b) {
                Ok(r) => assert!(r as $w == e, "add_checked exact"),
                Err(_) => assert!(e < MIN || e > MAX, "add_checked errs only on overflow"),
            }
            assert!(a.add_wrapping(b) == e as $t, "add_wrapping");
            let e = wa - wb;
            match a.sub_checked(b) {
                Ok(r) => assert!(r as $w == e, "sub_checked exact"),
                Err(_) => assert!(e < MIN || e > MAX, "sub_checked errs only on overflow"),
            }
            assert!(a.sub_wrapping(b) == e as $t, "sub_wrapping");
            let e = -wa;
            match a.neg_checked() {
                Ok(r) => assert!(r as $w == e, "neg_checked exact"),
                Err(_) => assert!(e < MIN || e > MAX, "neg_checked errs only on overflow"),
            }
            kani::cover!(a.add_checked(b).is_err(), "add overflows");
            kani::cover!(a.sub_checked(b).is_err(), "sub overflows");
        }
    };
}

int_addsub_wide!(c12_native_addsub_i8, i8, i32);
int_addsub_wide!(c12_native_addsub_u8, u8, i32);
int_addsub_wide!(c12_native_addsub_i16, i16, i64);
int_addsub_wide!(c12_native_addsub_u16, u16, i64);
int_addsub_wide!(c12_native_addsub_i32, i32, i64);
int_addsub_wide!(c12_native_addsub_i64, i64, i128);
int_addsub_wide!(c12_native_addsub_u32, u32, i64);
int_addsub_wide!(c12_native_addsub_u64, u64, i128);

macro_rules! int_mul_by_small {
    ($name:ident, $t:ty, $w:ty) => {
        //@ tier: thorough
        //@ timeout: 2400
        //@ functions: arrow_array::ArrowNativeTypeOp::{mul_checked, mul_wrapping}
        //@ bound: first operand full width, second operand in -128..=127 (0..=127 for unsigned types), both operand orders: exact product in a type twice as wide (independent reference); full-width x full-width products of 32-bit operands are in the thorough tier, 64/128-bit full products are not decided by Kani (i256 products: Engine M)
        //@ stub: alloc::fmt::format -> empty String
        #[kani::proof]
        #[kani::stub(alloc::fmt::format, stub_format)]
        fn $name() {
            let a: $t = kani::any();
            let s: i8 = kani::any();
            kani::assume(<$t>::MIN != 0 || s >= 0);
            let b = s as $t;
            let e = (a as $w) * (b as $w);
            let swap: bool = kani::any();
            let r = if swap { b.mul_checked(a) } else { a.mul_checked(b) };
            match r {
                Ok(r) => assert!(r as $w == e, "mul_checked exact"),
                Err(_) => assert!(e < <$t>::MIN as $w || e > <$t>::MAX as $w, "mul_checked errs only on overflow"),
            }
            assert!(a.mul_wrapping(b) == e as $t, "mul_wrapping = exact mod 2^w");
            kani::cover!(a.mul_checked(b).is_err(), "overflow");
            kani::cover!(a.mul_checked(b).is_ok() && s > 1 && a > 1000, "large product fits");
        }
    };
}

int_mul_by_small!(c12_native_mul_small_i32, i32, i64);
int_mul_by_small!(c12_native_mul_small_u32, u32, i64);

macro_rules! int_mul_by_const {
    ($name:ident, $t:ty, $w:ty) => {
        //@ tier: quick
        //@ functions: arrow_array::ArrowNativeTypeOp::{mul_checked, mul_wrapping}
        //@ bound: first operand full width, second operand one of the constants {0, 1, 2, 3, 10, MAX, -1 (signed types)} in either operand order: exact product in a type twice as wide; Err exactly when it does not fit (multiplication by a constant needs no multiplier reasoning, so this decides the overflow / wrap behaviour at full width; arbitrary x arbitrary products: 8/16-bit quick, 32-bit thorough)
        //@ stub: alloc::fmt::format -> empty String
        #[kani::proof]
        #[kani::stub(alloc::fmt::format, stub_format)]
        fn $name() {
            let a: $t = kani::any();
            let sel: u8 = kani::any();
            kani::assume(sel < 7);
            let b: $t = match sel {
                0 => 0,
                1 => 1,
                2 => 2,
                3 => 3,
                4 => 10,
                5 => <$t>::MAX,
                _ => (0 as $t).wrapping_sub(1),
            };
            let e = (a as $w) * (b as $w);
            let swap: bool = kani::any();
            let r = if swap { b.mul_checked(a) } else { a.mul_checked(b) };
            match r {
                Ok(r) => assert!(r as $w == e, "mul_checked exact"),
                Err(_) => assert!(e < <$t>::MIN as $w || e > <$t>::MAX as $w, "mul_checked errs only on overflow"),
            }
            assert!(a.mul_wrapping(b) == e as $t, "mul_wrapping = exact mod 2^w");
            kani::cover!(a.mul_checked(b).is_err() && sel == 2, "doubling overflows");
            kani::cover!(a.mul_checked(b).is_ok() && sel == 4 && a > 100, "times ten fits");
        }
    };
}

int_mul_by_const!(c12_native_mul_const_i32, i32, i64);
int_mul_by_const!(c12_native_mul_const_u32, u32, u64);
int_mul_by_const!(c12_native_mul_const_i64, i64, i128);
int_mul_by_const!(c12_native_mul_const_u64, u64, u128);

macro_rules! int_div_classes {
    ($name:ident, $t:ty) => {
        //@ tier: quick
        //@ timeout: 600
        //@ functions: arrow_array::ArrowNativeTypeOp::{div_checked, mod_checked}
        //@ bound: full width: the OUTCOME CLASS of div_checked / mod_checked for every operand pair - DivideByZero exactly for a zero divisor, ArithmeticOverflow exactly for MIN / -1 (MIN % -1), Ok otherwise; quotient VALUES are decided only for the 8-bit types (c12_native_divmod_*)
        //@ stub: alloc::fmt::format -> empty String
        #[kani::proof]
        #[kani::stub(alloc::fmt::format, stub_format)]
        fn $name() {
            let a: $t = kani::any();
            let b: $t = kani::any();
            let min_by_minus_one = <$t>::MIN != 0 && a == <$t>::MIN && b.wrapping_add(1) == 0;
            match a.div_checked(b) {
                Ok(_) => assert!(b != 0 && !min_by_minus_one, "Ok only when defined"),
                Err(ArrowError::DivideByZero) => assert!(b == 0, "DivideByZero iff rhs == 0"),
                Err(_) => assert!(b != 0 && min_by_minus_one, "overflow only for MIN / -1"),
            }
            match a.mod_checked(b) {
                Ok(_) => assert!(b != 0 && !min_by_minus_one),
                Err(ArrowError::DivideByZero) => assert!(b == 0),
                Err(_) => assert!(b != 0 && min_by_minus_one),
            }
            kani::cover!(b == 0);
            kani::cover!(b != 0 && a.div_checked(b).is_ok());
        }
    };
}

int_div_classes!(c12_native_div_classes_i32, i32);
int_div_classes!(c12_native_div_classes_i64, i64);
int_div_classes!(c12_native_div_classes_u64, u64);
int_div_classes!(c12_native_div_classes_i128, i128);

//@ tier: quick
//@ functions: arrow_array::ArrowNativeTypeOp for i128: add/sub/neg checked+wrapping
//@ bound: full width; reference: sign rule for two's complement overflow written out in the harness
//@ stub: alloc::fmt::format -> empty String
#[kani::proof]
#[kani::stub(alloc::fmt::format, stub_format)]
fn c12_native_addsub_i128() {
    let a: i128 = kani::any();
    let b: i128 = kani::any();
    let s = (a as u128).wrapping_add(b as u128) as i128;
    let ovf = (a < 0) == (b < 0) && (s < 0) != (a < 0);
    match a.add_checked(b) {
        Ok(r) => assert!(!ovf && r == s),
        Err(_) => assert!(ovf),
    }
    assert!(a.add_wrapping(b) == s);
    let d = (a as u128).wrapping_sub(b as u128) as i128;
    let ovf = (a < 0) != (b < 0) && (d < 0) != (a < 0);
    match a.sub_checked(b) {
        Ok(r) => assert!(!ovf && r == d),
        Err(_) => assert!(ovf),
    }
    assert!(a.sub_wrapping(b) == d);
    match a.neg_checked() {
        Ok(r) => assert!(a != i128::MIN && r == (!a).wrapping_add(1)),
        Err(_) => assert!(a == i128::MIN),
    }
    kani::cover!(a.add_checked(b).is_err());
    kani::cover!(a.sub_checked(b).is_ok() && a < 0 && b > 0);
}

//@ tier: quick
//@ functions: arrow_array::ArrowNativeTypeOp::pow_checked, pow_wrapping (i8)
//@ bound: i8 base full width, exponent 0..=3 symbolic, exact result in i32
//@ stub: alloc::fmt::format -> empty String
#[kani::proof]
#[kani::unwind(8)]
#[kani::stub(alloc::fmt::format, stub_format)]
fn c12_native_pow_small() {
    // i8 base, exponent 0..=3: exact value in i32 (i16 with exponent <= 4 took 450 s)
    let a: i8 = kani::any();
    let e: u32 = kani::any();
    kani::assume(e <= 3);
    let mut exact: i32 = 1;
    let mut k = 0;
    while k < 3 {
        if k < e {
            exact *= a as i32;
        }
        k += 1;
    }
    match a.pow_checked(e) {
        Ok(r) => assert!(r as i32 == exact, "pow exact"),
        Err(_) => assert!(exact > i8::MAX as i32 || exact < i8::MIN as i32, "pow errs only on overflow"),
    }
    assert!(a.pow_wrapping(e) == exact as i8, "pow_wrapping");
    kani::cover!(a.pow_checked(e).is_err());
    kani::cover!(e == 3 && a.pow_checked(e).is_ok() && a > 3);
}

//@ tier: quick
//@ functions: arrow_array::ArrowNativeTypeOp for f32/f64/f16: compare, is_eq, is_lt.., is_zero, MIN/MAX_TOTAL_ORDER; div/mod_checked zero test
//@ bound: full width bit patterns; order oracle = IEEE-754 totalOrder via the sign-magnitude integer key written in the harness
//@ stub: alloc::fmt::format -> empty String
#[kani::proof]
#[kani::stub(alloc::fmt::format, stub_format)]
fn c12_float_total_order_and_zero() {
    fn key64(x: f64) -> i64 {
        let b = x.to_bits() as i64;
        b ^ (((b >> 63) as u64) >> 1) as i64
    }
    fn key32(x: f32) -> i32 {
        let b = x.to_bits() as i32;
        b ^ (((b >> 31) as u32) >> 1) as i32
    }
    let a = f64::from_bits(kani::any());
    let b = f64::from_bits(kani::any());
    assert!(a.compare(b) == key64(a).cmp(&key64(b)), "f64 compare is totalOrder");
    assert!(a.is_eq(b) == (a.to_bits() == b.to_bits()), "f64 is_eq is bit equality");
    assert!(a.is_lt(b) == (key64(a) < key64(b)) && a.is_ge(b) == (key64(a) >= key64(b)));
    assert!(key64(f64::MIN_TOTAL_ORDER) <= key64(a) && key64(a) <= key64(f64::MAX_TOTAL_ORDER), "extremes");
    assert!(a.is_zero() == (a == 0.0), "is_zero covers both signed zeros");
    if a.is_finite() && b.is_finite() {
        // (Kani flags NaN-producing float divisions such as inf/inf as a check of its own, so the
        // divisor test is exercised on finite operands)
        match a.div_checked(b) {
            Ok(_) => assert!(b != 0.0),
            Err(_) => assert!(b == 0.0, "float division errs only for zero divisor"),
        }
    }
    let c = f32::from_bits(kani::any());
    let d = f32::from_bits(kani::any());
    assert!(c.compare(d) == key32(c).cmp(&key32(d)), "f32 compare is totalOrder");
    assert!(c.is_eq(d) == (c.to_bits() == d.to_bits()));
    assert!(key32(f32::MIN_TOTAL_ORDER) <= key32(c) && key32(c) <= key32(f32::MAX_TOTAL_ORDER));
    let e = f16::from_bits(kani::any());
    let f = f16::from_bits(kani::any());
    let k16 = |x: f16| {
        let b = x.to_bits() as i16;
        b ^ (((b >> 15) as u16) >> 1) as i16
    };
    assert!(e.compare(f) == k16(e).cmp(&k16(f)), "f16 compare is totalOrder");
    assert!(k16(f16::MIN_TOTAL_ORDER) <= k16(e) && k16(e) <= k16(f16::MAX_TOTAL_ORDER));
    kani::cover!(a.is_nan() && !b.is_nan() && a.compare(b) == Ordering::Less, "negative NaN sorts first");
    kani::cover!(a == 0.0 && b == 0.0 && a.compare(b) == Ordering::Less, "-0 < +0");
}
