//@ property: C12
//@ crate: arrow-array
//@ target: arrow-array/src/arithmetic.rs
// Child module of arrow-array/src/arithmetic.rs: ArrowNativeTypeOp checked / wrapping operations.
use super::*;

fn stub_format(_a: std::fmt::Arguments<'_>) -> String {
    String::new()
}

macro_rules! int_muldiv_wide {
    ($name:ident, $t:ty, $w:ty) => {
        //@ tier: quick
        //@ functions: arrow_array::ArrowNativeTypeOp::{mul,div,mod}_{checked,wrapping}, is_zero
        //@ bound: full width, both operands arbitrary; exact result computed in a type at least twice as wide (independent reference)
        //@ stub: alloc::fmt::format -> empty String (error message content is outside the claim)
        #[kani::proof]
        #[kani::stub(alloc::fmt::format, stub_format)]
        fn $name() {
            let a: $t = kani::any();
            let b: $t = kani::any();
            const MIN: $w = <$t>::MIN as $w;
            const MAX: $w = <$t>::MAX as $w;
            let (wa, wb) = (a as $w, b as $w);
            let e = wa * wb;
            match a.mul_checked(b) {
                Ok(r) => assert!(r as $w == e, "mul_checked exact"),
                Err(_) => assert!(e < MIN || e > MAX, "mul_checked errs only on overflow"),
            }
            assert!(a.mul_wrapping(b) == e as $t, "mul_wrapping = exact mod 2^w");
            match a.div_checked(b) {
                Ok(r) => assert!(b != 0 && r as $w == wa / wb, "div_checked exact"),
                Err(ArrowError::DivideByZero) => assert!(b == 0, "DivideByZero iff rhs == 0"),
                Err(_) => assert!(b != 0 && (wa / wb < MIN || wa / wb > MAX), "div overflow"),
            }
            match a.mod_checked(b) {
                Ok(r) => assert!(b != 0 && r as $w == wa % wb, "mod_checked exact"),
                Err(ArrowError::DivideByZero) => assert!(b == 0, "DivideByZero iff rhs == 0"),
                Err(_) => assert!(b != 0 && MIN < 0 && wa == MIN && wb == -1, "mod_checked errs (std checked_rem) only for MIN % -1"),
            }
            assert!(a.is_zero() == (a == 0));
            kani::cover!(a.mul_checked(b).is_err(), "mul overflows");
            kani::cover!(a.mul_checked(b).is_ok() && a != 0 && b != 0 && a != 1 && b != 1, "mul fits");
            kani::cover!(a.div_checked(b).is_ok(), "div ok");
        }
    };
}

int_muldiv_wide!(c12_native_muldiv_i8, i8, i32);
int_muldiv_wide!(c12_native_muldiv_u8, u8, i32);
int_muldiv_wide!(c12_native_muldiv_i16, i16, i64);
int_muldiv_wide!(c12_native_muldiv_u16, u16, i64);

macro_rules! int_mul_wide {
    ($name:ident, $t:ty, $w:ty) => {
        //@ tier: quick
        //@ timeout: 900
        //@ functions: arrow_array::ArrowNativeTypeOp::{mul_checked, mul_wrapping}
        //@ bound: full width 32-bit operands; exact product in 64 bits (independent reference)
        //@ stub: alloc::fmt::format -> empty String
        #[kani::proof]
        #[kani::stub(alloc::fmt::format, stub_format)]
        fn $name() {
            let a: $t = kani::any();
            let b: $t = kani::any();
            let e = (a as $w) * (b as $w);
            match a.mul_checked(b) {
                Ok(r) => assert!(r as $w == e, "mul_checked exact"),
                Err(_) => assert!(e < <$t>::MIN as $w || e > <$t>::MAX as $w, "mul_checked errs only on overflow"),
            }
            assert!(a.mul_wrapping(b) == e as $t, "mul_wrapping = exact mod 2^32");
            kani::cover!(a.mul_checked(b).is_err());
            kani::cover!(a.mul_checked(b).is_ok() && a > 1000 && b > 1000);
        }
    };
}

int_mul_wide!(c12_native_mul32_signed, i32, i64);
int_mul_wide!(c12_native_mul32_unsigned, u32, i64);

macro_rules! int_addsub_wide {
    ($name:ident, $t:ty, $w:ty) => {
        //@ tier: quick
        //@ functions: arrow_array::ArrowNativeTypeOp::{add,sub,neg}_{checked,wrapping}
        //@ bound: full width, exact result in a type twice as wide
        //@ stub: alloc::fmt::format -> empty String
        #[kani::proof]
        #[kani::stub(alloc::fmt::format, stub_format)]
        fn $name() {
            let a: $t = kani::any();
            let b: $t = kani::any();
            const MIN: $w = <$t>::MIN as $w;
            const MAX: $w = <$t>::MAX as $w;
            let (wa, wb) = (a as $w, b as $w);
            let e = wa + wb;
            match a.add_checked(b) {
                Ok(r) => assert!(r as $w == e, "add_checked exact"),
                Err(_) => assert!(e < MIN || e > MAX, "add_checked errs only on overflow"),
            }
            assert!(a.add_wrapping(b) == e as $t, "add_wrapping");
            let e = wa - wb;
            match a.sub_checked(b) {
                Ok(r) => assert!(r as $w == e, "sub_checked exact"),
                Err(_) => assert!(e < MIN || e > MAX, "sub_checked errs only on overflow"),
            }
            assert!(a.sub_wrapping(b) == e as $t, "sub_wrapping");
            let e = -wa;
            match a.neg_checked() {
                Ok(r) => assert!(r as $w == e, "neg_checked exact"),
                Err(_) => assert!(e < MIN || e > MAX, "neg_checked errs only on overflow"),
            }
            kani::cover!(a.add_checked(b).is_err(), "add overflows");
            kani::cover!(a.sub_checked(b).is_err(), "sub overflows");
        }
    };
}

int_addsub_wide!(c12_native_addsub_i8, i8, i32);
int_addsub_wide!(c12_native_addsub_u8, u8, i32);
int_addsub_wide!(c12_native_addsub_i16, i16, i64);
int_addsub_wide!(c12_native_addsub_u16, u16, i64);
int_addsub_wide!(c12_native_addsub_i32, i32, i64);
int_addsub_wide!(c12_native_addsub_i64, i64, i128);
int_addsub_wide!(c12_native_addsub_u32, u32, i64);
int_addsub_wide!(c12_native_addsub_u64, u64, i128);

macro_rules! int_muldiv_std {
    ($name:ident, $t:ty) => {
        //@ tier: quick
        //@ functions: arrow_array::ArrowNativeTypeOp::{mul,div,mod}_{checked,wrapping}
        //@ bound: full width; reference = the std checked_*/wrapping_* operation itself (identical circuit on both sides): decides that the trait method returns Ok exactly when std's checked op does, with its value, and DivideByZero exactly for a zero divisor - i.e. it detects a checked->wrapping swap or a wrong error branch; it is NOT an independent multiplier/divider proof (that exists for 8/16/32-bit above and for i256 via Engine M)
        //@ stub: alloc::fmt::format -> empty String
        #[kani::proof]
        #[kani::stub(alloc::fmt::format, stub_format)]
        fn $name() {
            let a: $t = kani::any();
            let b: $t = kani::any();
            match a.mul_checked(b) {
                Ok(r) => assert!(a.checked_mul(b) == Some(r), "mul_checked ok iff std checked_mul"),
                Err(_) => assert!(a.checked_mul(b).is_none(), "mul_checked errs only on overflow"),
            }
            assert!(a.mul_wrapping(b) == a.wrapping_mul(b));
            match a.div_checked(b) {
                Ok(r) => assert!(b != 0 && a.checked_div(b) == Some(r)),
                Err(ArrowError::DivideByZero) => assert!(b == 0),
                Err(_) => assert!(b != 0 && a.checked_div(b).is_none()),
            }
            match a.mod_checked(b) {
                Ok(r) => assert!(b != 0 && a.checked_rem(b) == Some(r)),
                Err(ArrowError::DivideByZero) => assert!(b == 0),
                Err(_) => assert!(b != 0 && a.checked_rem(b).is_none()),
            }
            kani::cover!(a.mul_checked(b).is_err(), "mul overflows");
            kani::cover!(a.div_checked(b).is_ok(), "div ok");
            kani::cover!(b == 0);
        }
    };
}

int_muldiv_std!(c12_native_muldiv_std_i32, i32);
int_muldiv_std!(c12_native_muldiv_std_i64, i64);
int_muldiv_std!(c12_native_muldiv_std_u64, u64);
int_muldiv_std!(c12_native_muldiv_std_i128, i128);

//@ tier: quick
//@ functions: arrow_array::ArrowNativeTypeOp for i128: add/sub/neg checked+wrapping
//@ bound: full width; reference: sign rule for two's complement overflow written out in the harness
//@ stub: alloc::fmt::format -> empty String
#[kani::proof]
#[kani::stub(alloc::fmt::format, stub_format)]
fn c12_native_addsub_i128() {
    let a: i128 = kani::any();
    let b: i128 = kani::any();
    let s = (a as u128).wrapping_add(b as u128) as i128;
    let ovf = (a < 0) == (b < 0) && (s < 0) != (a < 0);
    match a.add_checked(b) {
        Ok(r) => assert!(!ovf && r == s),
        Err(_) => assert!(ovf),
    }
    assert!(a.add_wrapping(b) == s);
    let d = (a as u128).wrapping_sub(b as u128) as i128;
    let ovf = (a < 0) != (b < 0) && (d < 0) != (a < 0);
    match a.sub_checked(b) {
        Ok(r) => assert!(!ovf && r == d),
        Err(_) => assert!(ovf),
    }
    assert!(a.sub_wrapping(b) == d);
    match a.neg_checked() {
        Ok(r) => assert!(a != i128::MIN && r == (!a).wrapping_add(1)),
        Err(_) => assert!(a == i128::MIN),
    }
    kani::cover!(a.add_checked(b).is_err());
    kani::cover!(a.sub_checked(b).is_ok() && a < 0 && b > 0);
}

//@ tier: quick
//@ functions: arrow_array::ArrowNativeTypeOp::pow_checked, pow_wrapping (i16 with symbolic exponent; i32 with exponents 2 and 3)
//@ bound: i16: full-width base, exponent 0..=4 symbolic, exact result in i128; i32: full-width base, concrete exponents 2 and 3, exact result in i128
//@ stub: alloc::fmt::format -> empty String
#[kani::proof]
#[kani::unwind(6)]
#[kani::stub(alloc::fmt::format, stub_format)]
fn c12_native_pow_small() {
    let a: i16 = kani::any();
    let e: u32 = kani::any();
    kani::assume(e <= 4);
    let mut exact: i128 = 1;
    let mut k = 0;
    while k < 4 {
        if k < e {
            exact *= a as i128;
        }
        k += 1;
    }
    match a.pow_checked(e) {
        Ok(r) => assert!(r as i128 == exact, "pow exact"),
        Err(_) => assert!(exact > i16::MAX as i128 || exact < i16::MIN as i128, "pow errs only on overflow"),
    }
    assert!(a.pow_wrapping(e) == exact as i16, "pow_wrapping");
    let b: i32 = kani::any();
    let sq = (b as i128) * (b as i128);
    match b.pow_checked(2) {
        Ok(r) => assert!(r as i128 == sq, "square exact"),
        Err(_) => assert!(sq > i32::MAX as i128, "square errs only on overflow"),
    }
    kani::cover!(a.pow_checked(e).is_err());
    kani::cover!(e == 4 && a.pow_checked(e).is_ok() && a > 10);
    kani::cover!(b.pow_checked(2).is_err());
}

//@ tier: quick
//@ functions: arrow_array::ArrowNativeTypeOp for f32/f64/f16: compare, is_eq, is_lt.., is_zero, MIN/MAX_TOTAL_ORDER; div/mod_checked zero test
//@ bound: full width bit patterns; order oracle = IEEE-754 totalOrder via the sign-magnitude integer key written in the harness
//@ stub: alloc::fmt::format -> empty String
#[kani::proof]
#[kani::stub(alloc::fmt::format, stub_format)]
fn c12_float_total_order_and_zero() {
    fn key64(x: f64) -> i64 {
        let b = x.to_bits() as i64;
        b ^ (((b >> 63) as u64) >> 1) as i64
    }
    fn key32(x: f32) -> i32 {
        let b = x.to_bits() as i32;
        b ^ (((b >> 31) as u32) >> 1) as i32
    }
    let a = f64::from_bits(kani::any());
    let b = f64::from_bits(kani::any());
    assert!(a.compare(b) == key64(a).cmp(&key64(b)), "f64 compare is totalOrder");
    assert!(a.is_eq(b) == (a.to_bits() == b.to_bits()), "f64 is_eq is bit equality");
    assert!(a.is_lt(b) == (key64(a) < key64(b)) && a.is_ge(b) == (key64(a) >= key64(b)));
    assert!(key64(f64::MIN_TOTAL_ORDER) <= key64(a) && key64(a) <= key64(f64::MAX_TOTAL_ORDER), "extremes");
    assert!(a.is_zero() == (a == 0.0), "is_zero covers both signed zeros");
    if a.is_finite() && b.is_finite() {
        // (Kani flags NaN-producing float divisions such as inf/inf as a check of its own, so the
        // divisor test is exercised on finite operands)
        match a.div_checked(b) {
            Ok(_) => assert!(b != 0.0),
            Err(_) => assert!(b == 0.0, "float division errs only for zero divisor"),
        }
    }
    let c = f32::from_bits(kani::any());
    let d = f32::from_bits(kani::any());
    assert!(c.compare(d) == key32(c).cmp(&key32(d)), "f32 compare is totalOrder");
    assert!(c.is_eq(d) == (c.to_bits() == d.to_bits()));
    assert!(key32(f32::MIN_TOTAL_ORDER) <= key32(c) && key32(c) <= key32(f32::MAX_TOTAL_ORDER));
    let e = f16::from_bits(kani::any());
    let f = f16::from_bits(kani::any());
    let k16 = |x: f16| {
        let b = x.to_bits() as i16;
        b ^ (((b >> 15) as u16) >> 1) as i16
    };
    assert!(e.compare(f) == k16(e).cmp(&k16(f)), "f16 compare is totalOrder");
    assert!(k16(f16::MIN_TOTAL_ORDER) <= k16(e) && k16(e) <= k16(f16::MAX_TOTAL_ORDER));
    kani::cover!(a.is_nan() && !b.is_nan() && a.compare(b) == Ordering::Less, "negative NaN sorts first");
    kani::cover!(a == 0.0 && b == 0.0 && a.compare(b) == Ordering::Less, "-0 < +0");
}
