//@ property: C12
//@ crate: arrow-arith
//@ target: arrow-arith/src/boolean.rs
// Child module of arrow-arith/src/boolean.rs: three-valued (Kleene) and/or/not at array level, with arbitrary
// bits stored under null slots (the Arrow format leaves them unspecified).
use super::*;
use arrow_buffer::Buffer;

fn stub_format(_a: std::fmt::Arguments<'_>) -> String {
    String::new()
}

const N: usize = 4;

// Reference model of BooleanBuffer::from_bitwise_binary_op for len <= 64: read the two bit ranges into words,
// apply the word operation once, return a zero-offset buffer. Used as a STUB in the `*_via_contract` instances
// below, whose operands take the u64-aligned fast path of the real function (which exceeds the memory cap): those
// instances decide the Kleene kernels UNDER THE ASSUMPTION that from_bitwise_binary_op computes the bitwise
// operation of its two bit ranges (its documented contract; decided for the unaligned path by the other
// instances, which run the real function).
fn ref_from_bitwise_binary_op<F, L, R>(left: L, lo: usize, right: R, ro: usize, len: usize, mut op: F) -> BooleanBuffer
where
    F: FnMut(u64, u64) -> u64,
    L: AsRef<[u8]>,
    R: AsRef<[u8]>,
{
    let (l, r) = (left.as_ref(), right.as_ref());
    let mut a = 0u64;
    let mut b = 0u64;
    let mut i = 0;
    while i < N {
        if i < len {
            if (l[(lo + i) / 8] >> ((lo + i) % 8)) & 1 == 1 {
                a |= 1 << i;
            }
            if (r[(ro + i) / 8] >> ((ro + i) % 8)) & 1 == 1 {
                b |= 1 << i;
            }
        }
        i += 1;
    }
    let w = op(a, b);
    BooleanBuffer::new(Buffer::from_vec(vec![w]), 0, len)
}

// a BooleanArray of N rows: value bits and validity bits are independent symbolic bytes viewed at the given
// (concrete, per harness instance) bit offsets, so slots that are null can hold either value bit
fn any_bool_array(with_nulls: bool, vo: usize, mo: usize) -> (BooleanArray, u8, u8) {
    let v: u16 = kani::any();
    let m: u16 = kani::any();
    // offset 0 on both sides selects the u64-aligned fast path of the word kernels: back those instances by a
    // whole, 8-byte aligned u64 word (as real arrays are); other instances use 2-byte buffers
    let mk = |bits: u16, off: usize| if off == 0 { Buffer::from_vec(vec![bits as u64]) } else { Buffer::from_vec(bits.to_le_bytes().to_vec()) };
    let values = BooleanBuffer::new(mk(v, vo), vo, N);
    let nulls = if with_nulls { Some(NullBuffer::new(BooleanBuffer::new(mk(m, mo), mo, N))) } else { None };
    let vb = ((v >> vo) & 0xF) as u8;
    let mb = if with_nulls { ((m >> mo) & 0xF) as u8 } else { 0xF };
    (BooleanArray::new(values, nulls), vb, mb)
}

// Kleene truth tables on Option<bool>
fn k_and(a: Option<bool>, b: Option<bool>) -> Option<bool> {
    match (a, b) {
        (Some(false), _) | (_, Some(false)) => Some(false),
        (Some(true), Some(true)) => Some(true),
        _ => None,
    }
}
fn k_or(a: Option<bool>, b: Option<bool>) -> Option<bool> {
    match (a, b) {
        (Some(true), _) | (_, Some(true)) => Some(true),
        (Some(false), Some(false)) => Some(false),
        _ => None,
    }
}
fn row(v: u8, m: u8, i: usize) -> Option<bool> {
    if (m >> i) & 1 == 1 { Some((v >> i) & 1 == 1) } else { None }
}

fn kleene_model(is_or: bool, ln: bool, rn: bool, offs: [usize; 4]) {
    let (l, lv, lm) = any_bool_array(ln, offs[0], offs[1]);
    let (r, rv, rm) = any_bool_array(rn, offs[2], offs[3]);
    let out = if is_or { or_kleene(&l, &r) } else { and_kleene(&l, &r) };
    let out = match out {
        Ok(o) => o,
        Err(e) => {
            std::mem::forget(e);
            assert!(false, "equal-length inputs must not fail");
            return;
        }
    };
    assert!(out.len() == N);
    let i: usize = kani::any();
    kani::assume(i < N);
    let want = if is_or { k_or(row(lv, lm, i), row(rv, rm, i)) } else { k_and(row(lv, lm, i), row(rv, rm, i)) };
    let got = if out.is_valid(i) { Some(out.value(i)) } else { None };
    assert!(got == want, "three-valued truth table, whatever bits lie under null slots");
    kani::cover!(!ln || (row(lv, lm, i).is_none() && (lv >> i) & 1 == 1 && want.is_none()), "null slot holding a 1 bit");
    kani::cover!(want == Some(is_or), "dominating value");
    std::mem::forget(out);
    std::mem::forget(l);
    std::mem::forget(r);
}

macro_rules! kleene_instance {
    ($name:ident, $is_or:expr, $ln:expr, $rn:expr, $offs:expr) => {
        //@ tier: quick
        //@ timeout: 900
        //@ functions: arrow_arith::boolean::{or_kleene, and_kleene}, arrow_buffer::buffer::ops::bitwise_quaternary_op_helper, BooleanBuffer::from_bitwise_binary_op, BooleanBuffer | and & operators, NullBuffer::new
        //@ bound: (instances whose two operands share the same bit offset mod 64 take the u64-aligned fast path of from_bitwise_binary_op, which exceeds the 12 GB cap - measured - and are NOT part of the claim) two BooleanArrays of 4 rows; value and validity bits arbitrary and independent (null slots hold arbitrary bits); which side has a validity buffer and the four buffer bit offsets are concrete per instance (instantiation arguments: is_or, left has nulls, right has nulls, [left values, left validity, right values, right validity] offsets): row i of the result = Kleene OR/AND of the logical rows; unwind 8
        //@ stub: alloc::fmt::format -> empty String
        #[kani::proof]
        #[kani::unwind(8)]
        #[kani::stub(alloc::fmt::format, stub_format)]
        fn $name() {
            kleene_model($is_or, $ln, $rn, $offs);
        }
    };
}

kleene_instance!(c12_or_kleene_both_nullable, true, true, true, [3, 5, 0, 1]);

macro_rules! kleene_contract_instance {
    ($name:ident, $is_or:expr, $offs:expr) => {
        //@ tier: quick
        //@ timeout: 900
        //@ functions: arrow_arith::boolean::{or_kleene, and_kleene}, bitwise_quaternary_op_helper, BitAnd / BitOr for &BooleanBuffer (buffer_bin_and / buffer_bin_or)
        //@ bound: both operands nullable, all four buffers at the same bit offset (the aligned case), 4 rows, value and validity bits arbitrary and independent: row i = Kleene OR/AND of the logical rows; unwind 8
        //@ assume: BooleanBuffer::from_bitwise_binary_op returns the bitwise op of its two bit ranges (stubbed by a 20-line reference model: the real aligned fast path exceeds the memory cap)
        //@ stub: alloc::fmt::format -> empty String; arrow_buffer::BooleanBuffer::from_bitwise_binary_op -> reference model
        #[kani::proof]
        #[kani::unwind(8)]
        #[kani::stub(alloc::fmt::format, stub_format)]
        #[kani::stub(arrow_buffer::BooleanBuffer::from_bitwise_binary_op, ref_from_bitwise_binary_op)]
        fn $name() {
            kleene_model($is_or, true, true, $offs);
        }
    };
}

kleene_contract_instance!(c12_or_kleene_via_contract_aligned, true, [3, 3, 3, 3]);
kleene_contract_instance!(c12_and_kleene_via_contract_aligned, false, [3, 3, 3, 3]);
kleene_instance!(c12_or_kleene_left_nullable, true, true, false, [0, 2, 1, 0]);
kleene_instance!(c12_or_kleene_right_nullable, true, false, true, [1, 0, 0, 6]);
kleene_instance!(c12_or_kleene_no_nulls, true, false, false, [2, 0, 7, 0]);
kleene_instance!(c12_and_kleene_both_nullable, false, true, true, [3, 5, 0, 1]);
kleene_instance!(c12_and_kleene_left_nullable, false, true, false, [0, 2, 1, 0]);
kleene_instance!(c12_and_kleene_right_nullable, false, false, true, [1, 0, 0, 6]);
kleene_instance!(c12_and_kleene_no_nulls, false, false, false, [2, 0, 7, 0]);

//@ tier: quick
//@ functions: the word-level formulas and_kleene / or_kleene pass to the bit-parallel helpers
//@ bound: full 64-bit words for all four operands (a = left validity, b = left values, c = right validity, d = right values): every bit of each formula equals the three-valued truth table
#[kani::proof]
fn c12_kleene_word_formulas() {
    let (a, b, c, d): (u64, u64, u64, u64) = (kani::any(), kani::any(), kani::any(), kani::any());
    let and_valid = (a | (c & !d)) & (c | (a & !b));
    let or_valid = (a | (c & d)) & (c | (a & b));
    let and_one_sided = a | !d; // left has nulls, right (values d) has none
    let or_one_sided = a | d;
    let i: u32 = kani::any();
    kani::assume(i < 64);
    let bit = |x: u64| (x >> i) & 1 == 1;
    let l = if bit(a) { Some(bit(b)) } else { None };
    let r = if bit(c) { Some(bit(d)) } else { None };
    assert!(bit(and_valid) == k_and(l, r).is_some(), "and: validity formula");
    assert!(bit(or_valid) == k_or(l, r).is_some(), "or: validity formula");
    assert!(bit(and_one_sided) == k_and(l, Some(bit(d))).is_some(), "and: one-sided validity");
    assert!(bit(or_one_sided) == k_or(l, Some(bit(d))).is_some(), "or: one-sided validity");
    if let Some(v) = k_and(l, r) {
        assert!(bit(b & d) == v, "and: value where valid");
    }
    if let Some(v) = k_or(l, r) {
        assert!(bit(b | d) == v, "or: value where valid");
    }
    kani::cover!(l.is_none() && r == Some(false));
    kani::cover!(l.is_none() && r.is_none() && bit(b));
}
