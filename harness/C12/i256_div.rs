//@ property: C12
//@ crate: arrow-buffer
//@ target: arrow-buffer/src/bigint/div.rs
// Child module of arrow-buffer/src/bigint/div.rs: Knuth long division (behind i256 div/rem and the Decimal256 kernels)
// against its defining equation, for a CONCRETE two-digit divisor and an arbitrary 256-bit dividend.  With the
// divisor concrete every multiplication is by a constant; the rare add-back step (taken by ~2^-63 of random
// operands) is just another path for the solver.
use super::*;

// div_rem_word is inline assembly (`div`) on x86_64; Kani cannot execute it.  It is stubbed by the function's own
// portable branch (the cfg(not(x86_64)) body, copied verbatim): 128-by-64-bit division.
fn portable_div_rem_word(hi: u64, lo: u64, divisor: u64) -> (u64, u64) {
    let x = (u128::from(hi) << 64) + u128::from(lo);
    let y = u128::from(divisor);
    ((x / y) as u64, (x % y) as u64)
}

// a = q * b + r, r < b, for b = [b0, b1, 0, 0]; all products are by the constants b0, b1
fn check_division(a: &[u64; 4], b0: u64, b1: u64, q: &[u64; 4], r: &[u64; 4]) {
    assert!(r[2] == 0 && r[3] == 0 && (r[1] < b1 || (r[1] == b1 && r[0] < b0)), "remainder below the divisor");
    // q * b, digit by digit, must fit 256 bits and equal a - r
    let mut prod = [0u64; 4];
    let mut carry: u128 = 0;
    let mut i = 0;
    while i < 4 {
        // column i of q * [b0, b1]: q[i]*b0 + q[i-1]*b1 (+ carry); each term < 2^128, the sum of their low
        // halves and the carry fits u128
        let t0 = (q[i] as u128) * (b0 as u128);
        let t1 = if i > 0 { (q[i - 1] as u128) * (b1 as u128) } else { 0 };
        let lo = (t0 & 0xFFFF_FFFF_FFFF_FFFF) + (t1 & 0xFFFF_FFFF_FFFF_FFFF) + (carry & 0xFFFF_FFFF_FFFF_FFFF);
        prod[i] = lo as u64;
        carry = (t0 >> 64) + (t1 >> 64) + (carry >> 64) + (lo >> 64);
        i += 1;
    }
    let top = (q[3] as u128) * (b1 as u128) + carry;
    assert!(top == 0, "quotient times divisor does not exceed the dividend's width");
    // prod + r == a
    let mut c: u128 = 0;
    let mut k = 0;
    while k < 4 {
        let s = prod[k] as u128 + r[k] as u128 + c;
        assert!(s as u64 == a[k], "dividend = quotient * divisor + remainder (digit k)");
        c = s >> 64;
        k += 1;
    }
    assert!(c == 0);
}

macro_rules! knuth_instance {
    ($name:ident, $b0:expr, $b1:expr) => {
        #[kani::proof]
        #[kani::unwind(6)]
        #[kani::stub(div_rem_word, portable_div_rem_word)]
        fn $name() {
            let a: [u64; 4] = kani::any();
            let b: [u64; 4] = [$b0, $b1, 0, 0];
            let (q, r) = div_rem(&a, &b);
            check_division(&a, $b0, $b1, &q, &r);
            kani::cover!(a[3] != 0 && q[2] != 0, "four-digit dividend");
            kani::cover!(a[2] == 0 && a[3] == 0 && a[1] < $b1, "dividend below the divisor");
        }
    };
}

//@ tier: thorough
//@ timeout: 3000
//@ functions: arrow_buffer::bigint::div::{div_rem::<4>, div_rem_knuth, div_rem_word, full_mul_u64, sub_assign, add_assign, full_shl, full_shr, shl_word, bits}
//@ bound: divisor 2^65 + 3 (two 64-bit digits: the n = 2 case of Knuth's algorithm, normalisation shift 62), EVERY 256-bit unsigned dividend: dividend = quotient * divisor + remainder and remainder < divisor, including the add-back path in every iteration; unwind 6
//@ stub: div_rem_word (x86 inline `div`) -> the crate's own portable u128 division branch
knuth_instance!(c12_i256_knuth_division_by_2p65_plus_3, 3, 2);
