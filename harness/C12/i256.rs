//@ property: C12
//@ crate: arrow-buffer
//@ target: arrow-buffer/src/bigint/mod.rs
// Child module of arrow-buffer/src/bigint/mod.rs.
use super::*;

// reference: 256-bit arithmetic on four u64 limbs, independent of i256 internals
fn limbs(x: i256) -> [u64; 4] {
    let (lo, hi) = x.to_parts();
    [lo as u64, (lo >> 64) as u64, hi as u64, ((hi as u128) >> 64) as u64]
}

fn eq4(a: [u64; 4], b: [u64; 4]) -> bool {
    a[0] == b[0] && a[1] == b[1] && a[2] == b[2] && a[3] == b[3]
}

fn any_i256() -> i256 {
    i256::from_parts(kani::any(), kani::any())
}

//@ tier: quick
//@ functions: arrow_buffer::i256::{wrapping_add, checked_add, overflowing_add, wrapping_sub, checked_sub, overflowing_sub, from_parts, to_parts, is_negative}
//@ bound: full width (2 x 256 bit); reference = ripple carry over four u64 limbs; unwind 6
#[kani::proof]
#[kani::unwind(6)]
fn c12_i256_add_sub() {
    let a = any_i256();
    let b = any_i256();
    let (la, lb) = (limbs(a), limbs(b));
    let mut carry = 0u128;
    let mut r = [0u64; 4];
    let mut i = 0;
    while i < 4 {
        let s = la[i] as u128 + lb[i] as u128 + carry;
        r[i] = s as u64;
        carry = s >> 64;
        i += 1;
    }
    assert!(eq4(limbs(a.wrapping_add(b)), r), "wrapping_add");
    let (sa, sb, sr) = (a.is_negative(), b.is_negative(), (r[3] >> 63) == 1);
    let ovf = sa == sb && sr != sa;
    assert!(a.checked_add(b).is_none() == ovf, "checked_add None iff signed overflow");
    let (w, o) = a.overflowing_add(b);
    assert!(eq4(limbs(w), r) && o == ovf, "overflowing_add");
    // subtraction: a - b = a + !b + 1
    let mut carry = 1u128;
    let mut d = [0u64; 4];
    let mut i = 0;
    while i < 4 {
        let s = la[i] as u128 + (!lb[i]) as u128 + carry;
        d[i] = s as u64;
        carry = s >> 64;
        i += 1;
    }
    assert!(eq4(limbs(a.wrapping_sub(b)), d), "wrapping_sub");
    let sd = (d[3] >> 63) == 1;
    let ovf = sa != sb && sd != sa;
    assert!(a.checked_sub(b).is_none() == ovf, "checked_sub None iff signed overflow");
    let (w, o) = a.overflowing_sub(b);
    assert!(eq4(limbs(w), d) && o == ovf, "overflowing_sub");
    kani::cover!(a.checked_add(b).is_none(), "add overflows");
    kani::cover!(a.checked_sub(b).is_none(), "sub overflows");
    kani::cover!(la[0] as u128 + lb[0] as u128 > u64::MAX as u128 && la[1] == u64::MAX, "carry ripples through a limb");
}

//@ tier: quick
//@ functions: arrow_buffer::i256::{wrapping_neg, checked_neg, wrapping_abs, checked_abs, cmp, signum, is_positive, to_i128, as_i128, from_i128}
//@ bound: full width; reference on limbs
#[kani::proof]
#[kani::unwind(6)]
fn c12_i256_neg_abs_cmp() {
    let a = any_i256();
    let b = any_i256();
    let la = limbs(a);
    // -a = !a + 1
    let mut carry = 1u128;
    let mut n = [0u64; 4];
    let mut i = 0;
    while i < 4 {
        let s = (!la[i]) as u128 + carry;
        n[i] = s as u64;
        carry = s >> 64;
        i += 1;
    }
    assert!(eq4(limbs(a.wrapping_neg()), n), "wrapping_neg");
    let is_min = eq4(la, [0, 0, 0, 1u64 << 63]);
    assert!(a.checked_neg().is_none() == is_min, "checked_neg None iff MIN");
    assert!(a.checked_abs().is_none() == is_min, "checked_abs None iff MIN");
    let abs = a.wrapping_abs();
    assert!(eq4(limbs(abs), if a.is_negative() { n } else { la }), "wrapping_abs");
    // order: signed compare on the top limb, unsigned below
    let lb = limbs(b);
    let mut ord = Ordering::Equal;
    let mut i = 4;
    while i > 0 {
        i -= 1;
        if ord == Ordering::Equal {
            ord = if i == 3 { (la[3] as i64).cmp(&(lb[3] as i64)) } else { la[i].cmp(&lb[i]) };
        }
    }
    assert!(a.cmp(&b) == ord, "cmp is the signed 256-bit order");
    assert!((a == b) == eq4(la, lb));
    // to_i128: Some iff sign-extension of the low half
    let fits = (la[2] == 0 && la[3] == 0 && (la[1] >> 63) == 0) || (la[2] == u64::MAX && la[3] == u64::MAX && (la[1] >> 63) == 1);
    match a.to_i128() {
        Some(v) => assert!(fits && v as u128 == (la[0] as u128 | ((la[1] as u128) << 64)), "to_i128 value"),
        None => assert!(!fits, "to_i128 None iff it does not fit"),
    }
    let x: i128 = kani::any();
    assert!(i256::from_i128(x).to_i128() == Some(x), "from_i128 round trip");
    kani::cover!(is_min);
    kani::cover!(a.to_i128().is_some() && a.is_negative());
    kani::cover!(a.cmp(&b) == Ordering::Less && la[3] == lb[3] && la[2] == lb[2]);
}

//@ tier: quick
//@ functions: arrow_buffer::i256::{from_le_bytes, to_le_bytes, from_be_bytes, to_be_bytes, shl, shr}, split_array
//@ bound: full width; per-index on byte / bit position; shift amount 0..=255
#[kani::proof]
#[kani::unwind(34)]
fn c12_i256_bytes_shifts() {
    let a = any_i256();
    let le = a.to_le_bytes();
    let be = a.to_be_bytes();
    let k: usize = kani::any();
    kani::assume(k < 32);
    let la = limbs(a);
    assert!(le[k] == (la[k / 8] >> (8 * (k % 8))) as u8, "little-endian byte k");
    assert!(be[31 - k] == le[k], "big-endian is the reverse");
    assert!(i256::from_le_bytes(le) == a && i256::from_be_bytes(be) == a, "byte round trips");
    let s: u8 = kani::any();
    let bit = |x: [u64; 4], i: usize| (x[i / 64] >> (i % 64)) & 1 == 1;
    let j: usize = kani::any();
    kani::assume(j < 256);
    let l = limbs(a << s);
    let r = limbs(a >> s);
    let s = s as usize;
    assert!(bit(l, j) == if j >= s { bit(la, j - s) } else { false }, "shl bit");
    assert!(bit(r, j) == if j + s < 256 { bit(la, j + s) } else { a.is_negative() }, "shr is arithmetic");
    kani::cover!(s > 128 && j > 128);
    kani::cover!(s == 0);
}

fn mul_by_small(a: i256, s: i8) {
    let b = i256::from_i128(s as i128);
    // |a| * |s| on limbs with carry, then sign
    let mag = (s as i16).unsigned_abs() as u128;
    let neg_a = a.is_negative();
    let la = limbs(a.wrapping_abs());
    let mut carry = 0u128;
    let mut p = [0u64; 4];
    let mut i = 0;
    while i < 4 {
        let t = la[i] as u128 * mag + carry;
        p[i] = t as u64;
        carry = t >> 64;
        i += 1;
    }
    let neg = neg_a != (s < 0);
    let mag_p = i256::from_parts(p[0] as u128 | ((p[1] as u128) << 64), (p[2] as u128 | ((p[3] as u128) << 64)) as i128);
    let expect_wrapped = if neg { mag_p.wrapping_neg() } else { mag_p };
    assert!(a.wrapping_mul(b) == expect_wrapped, "wrapping_mul = exact mod 2^256");
    // exact product fits iff no carry out and the magnitude fits the sign
    let top = (p[3] >> 63) == 1;
    let is_min_mag = eq4(p, [0, 0, 0, 1u64 << 63]);
    let fits = carry == 0 && (!top || (neg && is_min_mag)) || s == 0 || a == i256::ZERO;
    match a.checked_mul(b) {
        Some(r) => assert!(fits && r == expect_wrapped, "checked_mul Some iff exact product fits"),
        None => assert!(!fits, "checked_mul None only on overflow"),
    }
    kani::cover!(a.checked_mul(b).is_none(), "overflow");
    kani::cover!(a.checked_mul(b).is_some() && neg && s < -1 && la[2] != 0, "negative product, wide operand");
}


