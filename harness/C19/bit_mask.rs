//@ property: C19
//@ crate: arrow-buffer
//@ target: arrow-buffer/src/util/bit_mask.rs
// Child module of arrow-buffer/src/util/bit_mask.rs (reaches the private set_upto_64bits).
use super::*;
use crate::bit_util::get_bit;

//@ tier: quick
//@ functions: arrow_buffer::util::bit_mask::set_upto_64bits, read_bytes_to_u64, write_u64_bytes, or_write_u64_bytes
//@ bound: one inductive step of set_bits' loop; write/read shifts 0..8, len 1..=100, 16-byte buffers, arbitrary contents; unwind 10
//@ assume: loop invariant of set_bits (its callers write into zero-initialised ranges): destination bits in [offset_write, offset_write+len) are zero before the step
#[kani::proof]
#[kani::unwind(10)]
fn c19_set_upto_64_step() {
    let s: [u8; 16] = kani::any();
    let orig: [u8; 16] = kani::any();
    let ow: usize = kani::any();
    let or: usize = kani::any();
    let len: usize = kani::any();
    kani::assume(ow < 8 && or < 8 && len >= 1 && len <= 100);
    let i: usize = kani::any();
    kani::assume(i < 128);
    kani::assume(!(i >= ow && i < ow + len) || !get_bit(&orig, i));
    let mut dst = orig;
    let (_zeros, n) = unsafe { set_upto_64bits(&mut dst, &s, ow, or, len) };
    assert!(n >= 1 && n <= len && n <= 64);
    if i >= ow && i < ow + n {
        assert!(get_bit(&dst, i) == get_bit(&s, i - ow + or), "written bit equals source bit");
    } else if i >= ow + n && i < ow + len {
        assert!(!get_bit(&dst, i), "not-yet-written bits stay zero");
    } else {
        assert!(get_bit(&dst, i) == get_bit(&orig, i), "bits outside the range are unchanged");
    }
    kani::cover!(len >= 64 && ow != 0 && or != 0, "both shifts, full word");
    kani::cover!(len >= 64 && ow == 0 && or != 0, "read shift only");
    kani::cover!(len > 1 && len < 64 && ow > or, "short path");
    kani::cover!(len == 1, "single bit");
}

//@ tier: quick
//@ functions: arrow_buffer::util::bit_mask::set_upto_64bits
//@ bound: zero-count returned by one step equals number of zero source bits consumed; shifts 0..8, len 1..=100; ones counted on the destination, which c19_set_upto_64_step shows to hold exactly the written source bits
#[kani::proof]
#[kani::unwind(10)]
fn c19_set_upto_64_zero_count() {
    let s: [u8; 16] = kani::any();
    let ow: usize = kani::any();
    let or: usize = kani::any();
    let len: usize = kani::any();
    kani::assume(ow < 8 && or < 8 && len >= 1 && len <= 100);
    let mut dst = [0u8; 16];
    let (zeros, n) = unsafe { set_upto_64bits(&mut dst, &s, ow, or, len) };
    // c19_set_upto_64_step shows dst (all zero before) now holds exactly the n source bits, so
    // popcount(dst) is the number of one bits consumed from the source
    let ones = u128::from_le_bytes(dst).count_ones() as usize;
    assert!(zeros + ones == n, "zeros + ones == bits written");
    kani::cover!(len >= 64 && ow != 0 && or != 0, "both shifts");
    kani::cover!(len < 64 && len > 1, "short");
}

//@ tier: quick
//@ functions: arrow_buffer::util::bit_mask::set_bits, set_upto_64bits
//@ bound: every (offset_write, offset_read, len) that fits 10-byte buffers, arbitrary contents, per-index assertion; unwind 10
//@ assume: destination bits in the written range are zero (documented use: freshly allocated zeroed buffers)
#[kani::proof]
#[kani::unwind(10)]
fn c19_set_bits_small() {
    const N: usize = 10;
    let src: [u8; N] = kani::any();
    let orig: [u8; N] = kani::any();
    let mut dst = orig;
    let ow: usize = kani::any();
    let or: usize = kani::any();
    let len: usize = kani::any();
    kani::assume(ow <= N * 8 && or <= N * 8 && len <= N * 8);
    kani::assume(ow + len <= N * 8 && or + len <= N * 8);
    let i: usize = kani::any();
    kani::assume(i < N * 8);
    kani::assume(!(i >= ow && i < ow + len) || !get_bit(&orig, i));
    let _zeros = set_bits(&mut dst, &src, ow, or, len);
    if i >= ow && i < ow + len {
        assert!(get_bit(&dst, i) == get_bit(&src, i - ow + or), "copied bit");
    } else {
        assert!(get_bit(&dst, i) == get_bit(&orig, i), "neighbour unchanged");
    }
    kani::cover!(len > 64 && ow % 8 == 7 && or % 8 == 3, "long, both unaligned");
    kani::cover!(len == 0, "empty");
    kani::cover!(ow + len == N * 8 && len > 8, "ends at buffer end");
}

//@ tier: thorough
//@ timeout: 1800
//@ functions: arrow_buffer::util::bit_mask::set_bits, set_upto_64bits
//@ bound: every (offset_write, offset_read, len) that fits 24-byte (192-bit) buffers, arbitrary contents, per-index assertion; unwind 10
//@ assume: destination bits in the written range are zero
#[kani::proof]
#[kani::unwind(10)]
fn c19_set_bits_24bytes() {
    const N: usize = 24;
    let src: [u8; N] = kani::any();
    let orig: [u8; N] = kani::any();
    let mut dst = orig;
    let ow: usize = kani::any();
    let or: usize = kani::any();
    let len: usize = kani::any();
    kani::assume(ow <= N * 8 && or <= N * 8 && len <= N * 8);
    kani::assume(ow + len <= N * 8 && or + len <= N * 8);
    let i: usize = kani::any();
    kani::assume(i < N * 8);
    kani::assume(!(i >= ow && i < ow + len) || !get_bit(&orig, i));
    let _zeros = set_bits(&mut dst, &src, ow, or, len);
    if i >= ow && i < ow + len {
        assert!(get_bit(&dst, i) == get_bit(&src, i - ow + or), "copied bit");
    } else {
        assert!(get_bit(&dst, i) == get_bit(&orig, i), "neighbour unchanged");
    }
    kani::cover!(len > 128 && ow % 8 == 7 && or % 8 == 3, "three words, both unaligned");
}

//@ tier: quick
//@ functions: arrow_buffer::util::bit_mask::set_bits
//@ bound: returned zero count of set_bits = len - popcount of the bits written, every (offset_write, offset_read, len) within 9-byte buffers with len <= 64 (one or two loop iterations); unwind 10. Longer ranges follow from the step lemma c19_set_upto_64_zero_count and the accumulation `null_count += n; acc += len_set`
//@ assume: destination all zero before the call (c19_set_bits_small ties the written bits to the source field)
#[kani::proof]
#[kani::unwind(10)]
fn c19_set_bits_zero_count() {
    let s: [u8; 9] = kani::any();
    let ow: usize = kani::any();
    let or: usize = kani::any();
    let len: usize = kani::any();
    kani::assume(ow < 8 && or < 8 && len <= 64);
    let mut dst = [0u8; 9];
    let zeros = set_bits(&mut dst, &s, ow, or, len);
    let mut ones = 0usize;
    let mut k = 0;
    while k < 9 {
        ones += dst[k].count_ones() as usize;
        k += 1;
    }
    assert!(zeros + ones == len, "null count");
    kani::cover!(len == 64 && or != 0 && ow != 0, "two iterations, unaligned");
    kani::cover!(len < 64 && len > 8, "short");
}
