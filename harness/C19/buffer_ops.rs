//@ property: C19
//@ crate: arrow-buffer
//@ target: arrow-buffer/src/buffer/ops.rs
// Child module of arrow-buffer/src/buffer/ops.rs: the public bitmap operations that return a plain `Buffer`.  A plain
// Buffer carries no bit offset, so bit i of the result must be the result for input bit offset + i.
use super::*;

fn stub_format(_a: std::fmt::Arguments<'_>) -> String {
    String::new()
}

// Reference model of Buffer::bit_slice (the re-basing copy BooleanBuffer::sliced performs) for len <= 24: bit i of the
// result is bit offset + i of the source.  Used as a STUB in the two unaligned instances: the real bit_slice
// (BitChunks + collect into a Vec<u64>) on top of the aligned negation path exceeds the memory cap; BitChunks is
// decided separately (c19_bit_chunks_view, c19_unaligned_chunk_view).
fn ref_bit_slice(b: &Buffer, offset: usize, len: usize) -> Buffer {
    // loop-free (the harness unwind bound stays small): 5 source bytes cover 24 bits at any sub-byte offset
    let src = b.as_slice();
    let k = offset / 8;
    kani::assume(len <= 24 && k + 5 <= src.len());
    let w = (src[k] as u64) | (src[k + 1] as u64) << 8 | (src[k + 2] as u64) << 16 | (src[k + 3] as u64) << 24 | (src[k + 4] as u64) << 32;
    let bits = (w >> (offset % 8)) & ((1u64 << len) - 1);
    Buffer::from_vec(vec![bits as u8, (bits >> 8) as u8, (bits >> 16) as u8])
}

fn unary_not_model(off: usize, len: usize) {
    let words: [u64; 2] = kani::any();
    let src = Buffer::from_vec(words.to_vec());
    let out = buffer_unary_not(&src, off, len);
    assert!(out.len() * 8 >= len, "the result holds at least len bits");
    let i: usize = kani::any();
    kani::assume(i < len);
    let p = off + i;
    let in_bit = (words[p / 64] >> (p % 64)) & 1 == 1;
    let out_bit = (out.as_slice()[i / 8] >> (i % 8)) & 1 == 1;
    assert!(out_bit == !in_bit, "bit i of the returned bitmap is the negation of input bit offset + i");
    kani::cover!(in_bit && i == len - 1);
    std::mem::forget(out);
    std::mem::forget(src);
}

macro_rules! unary_not_instance {
    ($name:ident, $off:expr, $len:expr) => {
        #[kani::proof]
        #[kani::unwind(6)]
        #[kani::stub(alloc::fmt::format, stub_format)]
        #[kani::stub(Buffer::bit_slice, ref_bit_slice)]
        fn $name() {
            unary_not_model($off, $len);
        }
    };
}

//@ tier: quick
//@ timeout: 600
//@ functions: arrow_buffer::buffer::ops::buffer_unary_not, BooleanBuffer::{from_bitwise_unary_op, into_inner, sliced}
//@ bound: two aligned u64 words of arbitrary content, bit offset 0, 100 bits: bit i of the returned Buffer = NOT input bit i; per-index; unwind 6
//@ stub: alloc::fmt::format -> empty String; Buffer::bit_slice -> bit-by-bit reference model (only reached at non-zero offsets)
unary_not_instance!(c19_buffer_unary_not_offset0, 0, 100);
//@ tier: quick
//@ timeout: 600
//@ functions: arrow_buffer::buffer::ops::buffer_unary_not, BooleanBuffer::{from_bitwise_unary_op, into_inner, sliced}
//@ bound: two aligned u64 words of arbitrary content, bit offset 5 (not a multiple of 64), 20 bits: bit i of the returned Buffer = NOT input bit 5 + i (a Buffer carries no bit offset); unwind 6
//@ stub: alloc::fmt::format -> empty String; Buffer::bit_slice -> bit-by-bit reference model (only reached at non-zero offsets)
unary_not_instance!(c19_buffer_unary_not_offset5, 5, 20);
//@ tier: quick
//@ timeout: 600
//@ functions: arrow_buffer::buffer::ops::buffer_unary_not
//@ bound: as c19_buffer_unary_not_offset5 at bit offset 64 + 3 with 20 bits (the view starts in the second word); unwind 6
//@ stub: alloc::fmt::format -> empty String; Buffer::bit_slice -> bit-by-bit reference model (only reached at non-zero offsets)
unary_not_instance!(c19_buffer_unary_not_offset67, 67, 20);
