//@ property: C19
//@ crate: arrow-buffer
//@ target: arrow-buffer/src/buffer/boolean.rs
// Child module of arrow-buffer/src/buffer/boolean.rs: has_true / has_false on masks long enough (> 1024 bits) to
// reach the 16-word block reduction of the aligned middle section.
use super::*;

fn stub_format(_a: std::fmt::Arguments<'_>) -> String {
    String::new()
}

// `words` aligned u64 words of arbitrary content viewed at `off` for `len` bits: a bit that is false (true) anywhere
// in the view forces has_false (has_true); an all-true (all-false) view answers false.
fn any_all_model<const W: usize>(off: usize, len: usize) {
    let raw: [u64; W] = kani::any();
    let bb = BooleanBuffer::new(Buffer::from_vec(raw.to_vec()), off, len);
    let hf = bb.has_false();
    let ht = bb.has_true();
    let i: usize = kani::any();
    kani::assume(i < len);
    let p = off + i;
    let v = (raw[p / 64] >> (p % 64)) & 1 == 1;
    assert!(if v { ht } else { hf }, "a true bit => has_true, a false bit => has_false (wherever it sits)");
    kani::cover!(!v && p / 64 == 7 && raw[6] == u64::MAX, "a lone false bit in the middle of a full block");
    kani::cover!(v && p / 64 == W - 1, "a true bit in the tail");
    std::mem::forget(bb);
}

fn all_same_model<const W: usize>(off: usize, len: usize, ones: bool) {
    // every bit of the view has the same value; the bits outside the view are arbitrary
    let outside: [u64; 2] = kani::any();
    let mut raw = [if ones { u64::MAX } else { 0 }; W];
    let lead = off; // off < 64
    let end = off + len;
    if lead > 0 {
        let m = (1u64 << lead) - 1;
        raw[0] = (raw[0] & !m) | (outside[0] & m);
    }
    if end % 64 != 0 {
        let m = !((1u64 << (end % 64)) - 1);
        raw[end / 64] = (raw[end / 64] & !m) | (outside[1] & m);
    }
    let bb = BooleanBuffer::new(Buffer::from_vec(raw.to_vec()), off, len);
    if ones {
        assert!(!bb.has_false() && bb.has_true(), "all-true view: no false, some true; padding bits are not data");
    } else {
        assert!(!bb.has_true() && bb.has_false(), "all-false view");
    }
    kani::cover!(outside[0] != 0 && outside[0] != u64::MAX);
    std::mem::forget(bb);
}

//@ tier: quick
//@ timeout: 900
//@ functions: arrow_buffer::BooleanBuffer::{has_true, has_false}, UnalignedBitChunk::{new, prefix, chunks, suffix, lead_padding, trailing_padding}
//@ bound: 17 aligned u64 words of arbitrary content viewed whole (offset 0, 1088 bits: no prefix, one full block of 16 words reduced with one fold, one remainder word): any false bit => has_false, any true bit => has_true; per-index; unwind 19
//@ stub: alloc::fmt::format -> empty String
#[kani::proof]
#[kani::unwind(19)]
#[kani::stub(alloc::fmt::format, stub_format)]
fn c19_any_all_full_block_aligned() {
    any_all_model::<17>(0, 1088);
}

// (An instance with arbitrary content at bit offset 5 — 59-bit prefix, one block, 7-bit suffix — exceeded the memory
// cap; the uniform-content instance below exercises the prefix / suffix masking instead.)
//@ tier: quick
//@ timeout: 900
//@ functions: arrow_buffer::BooleanBuffer::{has_true, has_false}
//@ bound: 18 aligned u64 words viewed at bit offset 5 for 1090 bits (59-bit prefix word, one full block of 16 words, 7-bit suffix word) holding only true bits (and, second call, only false bits) with arbitrary bits outside the view: has_false (has_true) is false — padding is never read as data; unwind 19
//@ stub: alloc::fmt::format -> empty String
#[kani::proof]
#[kani::unwind(19)]
#[kani::stub(alloc::fmt::format, stub_format)]
fn c19_any_all_uniform_views_ignore_padding() {
    all_same_model::<18>(5, 1090, true);
    all_same_model::<18>(5, 1090, false);
}
