//@ property: C19
//@ crate: arrow-buffer
//@ target: arrow-buffer/src/buffer/null.rs
// Child module of arrow-buffer/src/buffer/null.rs.
use super::*;
use crate::Buffer;

fn stub_format(_a: std::fmt::Arguments<'_>) -> String {
    String::new()
}

fn bit(b: &[u8], i: usize) -> bool {
    (b[i / 8] >> (i % 8)) & 1 == 1
}

//@ tier: quick
//@ functions: arrow_buffer::NullBuffer::{new, null_count, is_valid, is_null, contains, slice}
//@ bound: two 3-byte validity masks at bit offsets 1 and 4, common length 0..=16: null_count is the number of cleared bits of the range; a.contains(b) iff every null of b is a null of a; slice keeps positions and recounts; unwind 19
//@ stub: alloc::fmt::format -> empty String
#[kani::proof]
#[kani::unwind(19)]
#[kani::stub(alloc::fmt::format, stub_format)]
fn c19_null_buffer_count_contains_slice() {
    let l: [u8; 3] = kani::any();
    let r: [u8; 3] = kani::any();
    let len: usize = kani::any();
    kani::assume(len <= 16);
    let a = NullBuffer::new(BooleanBuffer::new(Buffer::from_vec(l.to_vec()), 1, len));
    let b = NullBuffer::new(BooleanBuffer::new(Buffer::from_vec(r.to_vec()), 4, len));
    let mut na = 0usize;
    let mut violates = false;
    let mut i = 0;
    while i < 16 {
        if i < len {
            if !bit(&l, 1 + i) {
                na += 1;
            }
            // b null but a valid => a does not contain b
            if !bit(&r, 4 + i) && bit(&l, 1 + i) {
                violates = true;
            }
        }
        i += 1;
    }
    assert!(a.null_count() == na, "null_count is exact");
    assert!(a.contains(&b) == !violates, "contains = null positions of b are a subset of those of a");
    let k: usize = kani::any();
    if k < len {
        assert!(a.is_valid(k) == bit(&l, 1 + k) && a.is_null(k) != a.is_valid(k), "is_valid / is_null");
    }
    let so: usize = kani::any();
    let sl: usize = kani::any();
    kani::assume(so <= len && sl <= len - so);
    let s = a.slice(so, sl);
    assert!(s.len() == sl && s.null_count() <= sl, "slice length and count bound");
    if k < sl {
        assert!(s.is_valid(k) == bit(&l, 1 + so + k), "slice keeps positions");
    }
    kani::cover!(len == 16 && !violates && b.null_count() > 2);
    kani::cover!(violates);
    kani::cover!(sl > 8 && s.null_count() == 1);
    std::mem::forget(s);
    std::mem::forget(a);
    std::mem::forget(b);
}

fn union_model(with_a: bool, with_b: bool) {
    const LEN: usize = 12;
    let l: [u8; 3] = kani::any();
    let r: [u8; 3] = kani::any();
    let a = NullBuffer::new(BooleanBuffer::new(Buffer::from_vec(l.to_vec()), 1, LEN));
    let b = NullBuffer::new(BooleanBuffer::new(Buffer::from_vec(r.to_vec()), 4, LEN));
    let u = NullBuffer::union(if with_a { Some(&a) } else { None }, if with_b { Some(&b) } else { None });
    let k: usize = kani::any();
    kani::assume(k < LEN);
    let va = !with_a || bit(&l, 1 + k);
    let vb = !with_b || bit(&r, 4 + k);
    let any_null = (with_a && a.null_count() > 0) || (with_b && b.null_count() > 0);
    match &u {
        None => assert!(!any_null, "no validity buffer only if nothing is null"),
        Some(n) => {
            assert!(any_null && n.len() == LEN);
            assert!(n.is_valid(k) == (va && vb), "valid exactly where both are valid");
        }
    }
    kani::cover!(u.is_some() && va != vb);
    kani::cover!(u.is_none());
    std::mem::forget(u);
    std::mem::forget(a);
    std::mem::forget(b);
}

//@ tier: quick
//@ timeout: 600
//@ functions: arrow_buffer::NullBuffer::union, buffer_bin_and / BitAnd for &BooleanBuffer, BooleanBuffer::from_bitwise_binary_op (BitChunks path)
//@ bound: two validity masks of concrete length 12 at bit offsets 1 and 4 (operands that share an offset mod 64 take the aligned fast path: outside the claim), both present: union is None iff neither has a null, otherwise valid exactly where both are valid; unwind 8
//@ stub: alloc::fmt::format -> empty String
#[kani::proof]
#[kani::unwind(8)]
#[kani::stub(alloc::fmt::format, stub_format)]
fn c19_null_buffer_union_both() {
    union_model(true, true);
}

//@ tier: quick
//@ timeout: 600
//@ functions: arrow_buffer::NullBuffer::union (one side absent)
//@ bound: one validity mask of length 12 at bit offset 1, the other side absent: the result is the present side (or None if it has no null); unwind 8
//@ stub: alloc::fmt::format -> empty String
#[kani::proof]
#[kani::unwind(8)]
#[kani::stub(alloc::fmt::format, stub_format)]
fn c19_null_buffer_union_left_only() {
    union_model(true, false);
}

fn expand_model<const COUNT: usize>() {
    const LEN: usize = 6;
    let l: [u8; 2] = kani::any();
    let a = NullBuffer::new(BooleanBuffer::new(Buffer::from_vec(l.to_vec()), 3, LEN));
    let e = a.expand(COUNT);
    assert!(e.len() == LEN * COUNT && e.null_count() == a.null_count() * COUNT, "expanded length and null count");
    let j: usize = kani::any();
    kani::assume(j < LEN * COUNT);
    assert!(e.is_valid(j) == bit(&l, 3 + j / COUNT), "bit i repeated count times");
    kani::cover!(j == LEN * COUNT - 1);
    kani::cover!(a.null_count() == 2);
    std::mem::forget(e);
    std::mem::forget(a);
}

//@ tier: quick
//@ timeout: 600
//@ functions: arrow_buffer::NullBuffer::expand
//@ bound: validity mask of concrete length 6 at bit offset 3, count = 3 (concrete: the result buffer is allocated in proportion to it): the result has 18 rows, bit i repeated three times, null count scaled; unwind 20
//@ stub: alloc::fmt::format -> empty String
#[kani::proof]
#[kani::unwind(20)]
#[kani::stub(alloc::fmt::format, stub_format)]
fn c19_null_buffer_expand_x3() {
    expand_model::<3>();
}
