//@ property: C19
//@ crate: arrow-buffer
//@ target: arrow-buffer/src/util/bit_chunk_iterator.rs
// Child module of arrow-buffer/src/util/bit_chunk_iterator.rs.
use super::*;
use crate::bit_util::get_bit;

fn unaligned_chunk(max_off: usize, max_len: usize, wide: bool) {
    // 8-aligned backing store; a symbolic start byte gives aligned and unaligned base pointers for align_to
    let store: [u64; 5] = kani::any();
    let bytes: &[u8] = unsafe { std::slice::from_raw_parts(store.as_ptr().cast::<u8>(), 40) };
    let base: usize = kani::any();
    kani::assume(base < 8);
    let buf = &bytes[base..];
    let off: usize = kani::any();
    let len: usize = kani::any();
    kani::assume(off <= max_off && len <= max_len && off + len <= buf.len() * 8);
    let c = UnalignedBitChunk::new(buf, off, len);
    let words = c.prefix().is_some() as usize + c.chunks().len() + c.suffix().is_some() as usize;
    assert!(c.lead_padding() + len + c.trailing_padding() == 64 * words, "padding identity");
    assert!(c.lead_padding() < 64 && c.trailing_padding() < 64 || len == 0, "paddings below a word");
    // per-index: bit j of the logical range is bit (lead_padding + j) of the word sequence; padding bits are zero
    let mut k = 0usize;
    let p: usize = kani::any();
    let wi = p / 64;
    let mut w = 0u64;
    for x in c.iter() {
        if k == wi {
            w = x;
        }
        k += 1;
    }
    assert!(k == words, "iterator yields prefix, chunks, suffix");
    if p < 64 * words {
        let bit = (w >> (p % 64)) & 1 == 1;
        if p >= c.lead_padding() && p < c.lead_padding() + len {
            assert!(bit == get_bit(buf, off + p - c.lead_padding()), "payload bit");
        } else {
            assert!(!bit, "padding bit is zero");
        }
    }
    kani::cover!(!wide || (c.prefix().is_some() && c.suffix().is_some() && c.chunks().len() >= 1), "prefix + chunk + suffix (wide bound)");
    kani::cover!(c.prefix().is_some() && c.suffix().is_some(), "prefix + suffix");
    kani::cover!(c.prefix().is_some() && c.suffix().is_none() && len > 0, "prefix only");
    kani::cover!(base != 0 && len > 64, "unaligned base");
    kani::cover!(len == 0, "empty");
}

//@ tier: quick
//@ functions: arrow_buffer::bit_chunk_iterator::UnalignedBitChunk::{new, iter, lead_padding, trailing_padding, prefix, suffix, chunks}, compute_prefix_mask, compute_suffix_mask, read_u64
//@ bound: base pointer misalignment 0..8, bit offset 0..=17, len 0..=80 inside a 40-byte store, arbitrary contents, per-index over the produced words; unwind 8
#[kani::proof]
#[kani::unwind(8)]
fn c19_unaligned_chunk_view() {
    unaligned_chunk(17, 80, false);
}

//@ tier: thorough
//@ timeout: 1800
//@ functions: arrow_buffer::bit_chunk_iterator::UnalignedBitChunk::{new, iter}
//@ bound: base misalignment 0..8, bit offset 0..=70, len 0..=170 inside a 40-byte store; unwind 8
#[kani::proof]
#[kani::unwind(8)]
fn c19_unaligned_chunk_wide_view() {
    unaligned_chunk(70, 170, true);
}

//@ tier: quick
//@ functions: arrow_buffer::bit_chunk_iterator::UnalignedBitChunk::count_ones
//@ bound: count_ones equals the sum of per-word popcounts of the view (whose bits c19_unaligned_chunk_view ties to the input); offset 0..=17, len 0..=80; unwind 8
#[kani::proof]
#[kani::unwind(8)]
fn c19_unaligned_chunk_count_ones() {
    let store: [u64; 3] = kani::any();
    let bytes: &[u8] = unsafe { std::slice::from_raw_parts(store.as_ptr().cast::<u8>(), 24) };
    let base: usize = kani::any();
    kani::assume(base < 8);
    let buf = &bytes[base..];
    let off: usize = kani::any();
    let len: usize = kani::any();
    kani::assume(off <= 17 && len <= 80 && off + len <= buf.len() * 8);
    let c = UnalignedBitChunk::new(buf, off, len);
    let mut total = 0usize;
    for x in c.iter() {
        total += x.count_ones() as usize;
    }
    assert!(c.count_ones() == total, "count_ones = sum of word popcounts");
    assert!(total <= len, "never more ones than bits");
    kani::cover!(total == len && len > 64, "all ones across words");
}

//@ tier: quick
//@ functions: arrow_buffer::bit_chunk_iterator::BitChunks::{new, iter, remainder_len, remainder_bits, iter_padded, chunk_len}, BitChunkIterator::next
//@ bound: 20-byte buffer, bit offset 0..=23, len 0..=130, arbitrary contents; per-index on (chunk index, bit); unwind 10
#[kani::proof]
#[kani::unwind(10)]
fn c19_bit_chunks_view() {
    let buf: [u8; 20] = kani::any();
    let off: usize = kani::any();
    let len: usize = kani::any();
    kani::assume(off <= 23 && len <= 130 && off + len <= 160);
    let bc = BitChunks::new(&buf, off, len);
    assert!(bc.chunk_len() == len / 64 && bc.remainder_len() == len % 64, "chunk arithmetic");
    let i: usize = kani::any();
    kani::assume(i < 192);
    let mut w = 0u64;
    let mut k = 0usize;
    for x in bc.iter_padded() {
        if k == i / 64 {
            w = x;
        }
        k += 1;
    }
    assert!(k == len / 64 + 1, "iter_padded yields chunks + remainder");
    if i / 64 < k {
        let bit = (w >> (i % 64)) & 1 == 1;
        if i < len {
            assert!(bit == get_bit(&buf, off + i), "chunk bit = source bit");
        } else {
            assert!(!bit, "remainder padding is zero");
        }
    }
    kani::cover!(len > 128 && off % 8 != 0, "two chunks + remainder, unaligned");
    kani::cover!(len % 64 == 0 && len > 0, "no remainder");
}
