//@ property: C19
//@ crate: arrow-buffer
//@ target: arrow-buffer/src/util/bit_util.rs
// Child module of arrow-buffer/src/util/bit_util.rs.
use super::*;

const N: usize = 17;

fn in_place_binary(op: fn(u64, u64) -> u64, bop: fn(bool, bool) -> bool) {
    let orig: [u8; N] = kani::any();
    let right: [u8; N] = kani::any();
    let lo: usize = kani::any();
    let ro: usize = kani::any();
    let len: usize = kani::any();
    kani::assume(lo <= 20 && ro <= 20 && len <= 110);
    kani::assume(lo + len <= N * 8 && ro + len <= N * 8);
    let mut left = orig;
    apply_bitwise_binary_op(&mut left, lo, &right, ro, len, op);
    let i: usize = kani::any();
    kani::assume(i < N * 8);
    if i >= lo && i < lo + len {
        assert!(get_bit(&left, i) == bop(get_bit(&orig, i), get_bit(&right, i - lo + ro)), "bit in range = op(left, right)");
    } else {
        assert!(get_bit(&left, i) == get_bit(&orig, i), "bit outside range unchanged");
    }
    kani::cover!(len >= 64 && lo % 8 != 0 && ro % 8 != 0 && lo % 8 != ro % 8, "word path, different sub-byte offsets");
    kani::cover!(len > 0 && len < 8 && lo % 8 != 0, "inside one byte");
    kani::cover!(len == 0, "empty");
}

//@ tier: quick
//@ functions: arrow_buffer::bit_util::apply_bitwise_binary_op, align_to_byte, byte_aligned_bitwise_bin_op_helper, U64UnalignedSlice::zip_modify, handle_mutable_buffer_remainder, set_remainder_bits, get_remainder_bits, read_up_to_byte_from_offset, BitChunks::new
//@ bound: op = AND; 17-byte buffers, both bit offsets 0..=20, len 0..=110, arbitrary contents, per-index; unwind 12
#[kani::proof]
#[kani::unwind(12)]
fn c19_apply_binary_and() {
    in_place_binary(|a, b| a & b, |a, b| a && b);
}

//@ tier: thorough
//@ functions: arrow_buffer::bit_util::apply_bitwise_binary_op
//@ bound: op = OR; 17-byte buffers, both bit offsets 0..=20, len 0..=110, per-index; unwind 12
#[kani::proof]
#[kani::unwind(12)]
fn c19_apply_binary_or() {
    in_place_binary(|a, b| a | b, |a, b| a || b);
}

//@ tier: thorough
//@ functions: arrow_buffer::bit_util::apply_bitwise_binary_op
//@ bound: op = XOR; 17-byte buffers, both bit offsets 0..=20, len 0..=110, per-index; unwind 12
#[kani::proof]
#[kani::unwind(12)]
fn c19_apply_binary_xor() {
    in_place_binary(|a, b| a ^ b, |a, b| a != b);
}

//@ tier: thorough
//@ functions: arrow_buffer::bit_util::apply_bitwise_binary_op
//@ bound: op = AND-NOT (a & !b: exercises that padding bits of the right operand cannot leak); 17-byte buffers, offsets 0..=20, len 0..=110; unwind 12
#[kani::proof]
#[kani::unwind(12)]
fn c19_apply_binary_bic_andnot() {
    in_place_binary(|a, b| a & !b, |a, b| a && !b);
}

//@ tier: quick
//@ functions: arrow_buffer::bit_util::apply_bitwise_unary_op, align_to_byte, byte_aligned_bitwise_unary_op_helper, U64UnalignedSlice::apply_unary_op, handle_mutable_buffer_remainder_unary
//@ bound: op = NOT; 17-byte buffer, bit offset 0..=20, len 0..=110, arbitrary contents, per-index; unwind 12
#[kani::proof]
#[kani::unwind(12)]
fn c19_apply_unary_not() {
    let orig: [u8; N] = kani::any();
    let lo: usize = kani::any();
    let len: usize = kani::any();
    kani::assume(lo <= 20 && len <= 110 && lo + len <= N * 8);
    let mut left = orig;
    apply_bitwise_unary_op(&mut left, lo, len, |a| !a);
    let i: usize = kani::any();
    kani::assume(i < N * 8);
    if i >= lo && i < lo + len {
        assert!(get_bit(&left, i) != get_bit(&orig, i), "bit in range negated");
    } else {
        assert!(get_bit(&left, i) == get_bit(&orig, i), "bit outside range unchanged");
    }
    kani::cover!(len >= 64 && lo % 8 != 0, "word path unaligned");
    kani::cover!(len > 0 && len < 8 && lo % 8 != 0, "inside one byte");
}

//@ tier: quick
//@ functions: arrow_buffer::bit_util::read_up_to_byte_from_offset, read_u64
//@ bound: 2-byte slice for read_up_to_byte_from_offset with every (bits 1..8, offset 0..8)
#[kani::proof]
#[kani::unwind(10)]
fn c19_small_helpers() {
    let s: [u8; 2] = kani::any();
    let nb: usize = kani::any();
    let off: usize = kani::any();
    kani::assume(nb >= 1 && nb < 8 && off < 8);
    let r = read_up_to_byte_from_offset(&s, nb, off);
    let k: usize = kani::any();
    kani::assume(k < 8);
    if k < nb {
        assert!(((r >> k) & 1 == 1) == get_bit(&s, off + k), "read bit k");
    } else {
        assert!((r >> k) & 1 == 0, "upper bits zero");
    }
    let b: [u8; 8] = kani::any();
    let n: usize = kani::any();
    kani::assume(n <= 8);
    let w = read_u64(&b[..n]);
    let j: usize = kani::any();
    kani::assume(j < 8);
    assert!(((w >> (8 * j)) as u8) == if j < n { b[j] } else { 0 }, "read_u64 zero pads");
    kani::cover!(nb + off > 8, "read crosses byte");
    kani::cover!(n == 3, "short read_u64");
}

//@ tier: quick
//@ functions: arrow_buffer::bit_util::ceil, round_upto_power_of_2, round_upto_multiple_of_64
//@ bound: value 0..2^40, divisor in {1, 8, 64} (the divisors the crate uses), power-of-two factor 2^0..2^11
#[kani::proof]
fn c19_rounding_helpers() {
    let v: usize = kani::any();
    kani::assume(v < (1usize << 40));
    let sel: u8 = kani::any();
    let d: usize = if sel == 0 { 1 } else if sel == 1 { 8 } else { 64 };
    let c = ceil(v, d);
    assert!(c * d >= v && c * d - v < d, "ceil");
    let p: u32 = kani::any();
    kani::assume(p < 12);
    let f = 1usize << p;
    let r2 = round_upto_power_of_2(v, f);
    assert!(r2 >= v && r2 & (f - 1) == 0 && r2 - v < f, "round up to power of two");
    let r3 = round_upto_multiple_of_64(v);
    assert!(r3 >= v && r3 & 63 == 0 && r3 - v < 64, "round up to 64");
    kani::cover!(v & 63 == 0 && v > 0);
    kani::cover!(d == 8 && v & 7 == 3);
}
