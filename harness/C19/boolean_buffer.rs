//@ property: C19
//@ crate: arrow-buffer
//@ target: arrow-buffer/src/buffer/boolean.rs
// Child module of arrow-buffer/src/buffer/boolean.rs.
use super::*;

fn stub_format(_a: std::fmt::Arguments<'_>) -> String {
    String::new()
}

fn bit(b: &[u8], i: usize) -> bool {
    (b[i / 8] >> (i % 8)) & 1 == 1
}

//@ tier: quick
//@ functions: arrow_buffer::BooleanBuffer::{new, slice, value, len, offset, has_true, has_false, set_indices}, UnalignedBitChunk
//@ bound: 9-byte buffer, view at bit offset 0..=9 of length 0..=60, then slice(o, l) inside it: value(i) reads the right bit; a set bit in the slice implies has_true, a clear bit implies has_false, has_true implies the set-index iterator finds a set bit inside the slice, all-ones / all-zeros slices answer false to the opposite question (bits outside the slice are not read as data); unwind 12
//@ stub: alloc::fmt::format -> empty String
#[kani::proof]
#[kani::unwind(12)]
#[kani::stub(alloc::fmt::format, stub_format)]
fn c19_boolean_buffer_slice_any_all() {
    let raw: [u8; 9] = kani::any();
    let off: usize = kani::any();
    let len: usize = kani::any();
    kani::assume(off <= 9 && len <= 60);
    let bb = BooleanBuffer::new(Buffer::from_vec(raw.to_vec()), off, len);
    let so: usize = kani::any();
    let sl: usize = kani::any();
    kani::assume(so <= len && sl <= len - so);
    let s = bb.slice(so, sl);
    assert!(s.len() == sl && s.offset() == off + so, "slice arithmetic");
    let ht = s.has_true();
    let hf = s.has_false();
    let i: usize = kani::any();
    if i < sl {
        let v = s.value(i);
        assert!(v == bit(&raw, off + so + i), "value(i) of the slice");
        assert!(if v { ht } else { hf }, "a set bit => has_true, a clear bit => has_false");
    }
    // completeness: has_true / has_false produce a witness inside the slice
    if ht {
        match s.set_indices().next() {
            Some(p) => assert!(p < sl && bit(&raw, off + so + p), "has_true => a set bit inside the slice"),
            None => assert!(false, "has_true but no set index"),
        }
    }
    if sl == 0 {
        assert!(!ht && !hf, "empty slice has neither");
    }
    kani::cover!(sl > 40 && !hf, "all ones over most of a word, neighbours arbitrary");
    kani::cover!(sl > 0 && !ht && (off + so) % 8 != 0, "all zeros, unaligned");
    kani::cover!(ht && hf);
    std::mem::forget(s);
    std::mem::forget(bb);
}

//@ tier: quick
//@ timeout: 600
//@ functions: arrow_buffer::BooleanBuffer::count_set_bits, Buffer::count_set_bits_offset, UnalignedBitChunk::count_ones
//@ bound: 5-byte buffer, bit offset 0..=9, length 0..=24: count_set_bits equals a bit-by-bit count of exactly the addressed bits; unwind 26
//@ stub: alloc::fmt::format -> empty String
#[kani::proof]
#[kani::unwind(26)]
#[kani::stub(alloc::fmt::format, stub_format)]
fn c19_boolean_buffer_count_is_exact() {
    let raw: [u8; 5] = kani::any();
    let off: usize = kani::any();
    let len: usize = kani::any();
    kani::assume(off <= 9 && len <= 24);
    let bb = BooleanBuffer::new(Buffer::from_vec(raw.to_vec()), off, len);
    let mut n = 0usize;
    let mut i = 0;
    while i < 24 {
        if i < len && bit(&raw, off + i) {
            n += 1;
        }
        i += 1;
    }
    assert!(bb.count_set_bits() == n, "popcount of exactly the addressed bits");
    kani::cover!(len == 24 && n == 12);
    kani::cover!(len == 0);
    std::mem::forget(bb);
}

//@ tier: quick
//@ functions: arrow_buffer::BooleanBuffer::{find_nth_set_bit_position, set_indices}, BitIndexIterator
//@ bound: 3-byte buffer, bit offset 0..=5, length 0..=12, start inside, n 0..=3: the result is one past the n-th set bit at or after `start` (len if there are fewer); unwind 6
//@ stub: alloc::fmt::format -> empty String
#[kani::proof]
#[kani::unwind(6)]
#[kani::stub(alloc::fmt::format, stub_format)]
fn c19_find_nth_set_bit_position() {
    let raw: [u8; 3] = kani::any();
    let off: usize = kani::any();
    let len: usize = kani::any();
    kani::assume(off <= 5 && len <= 12);
    let bb = BooleanBuffer::new(Buffer::from_vec(raw.to_vec()), off, len);
    let start: usize = kani::any();
    let n: usize = kani::any();
    kani::assume(start <= len && n <= 3);
    let p = bb.find_nth_set_bit_position(start, n);
    assert!(p >= start && p <= len, "position within [start, len]");
    // set bits in [start, p), counted on the logical 12-bit value (no harness loop: the unwind bound applies to
    // every loop, and the iterator's own loops are what is under test)
    let logical = ((u32::from_le_bytes([raw[0], raw[1], raw[2], 0]) >> off) & ((1u32 << len) - 1)) as u16;
    let below_p = if p >= 16 { u16::MAX } else { (1u16 << p) - 1 };
    let from_start = !((1u16 << start) - 1);
    let c = (logical & below_p & from_start).count_ones() as usize;
    if n == 0 {
        assert!(p == start, "n = 0 returns start");
    } else if p < len || (p == len && p > start && bb.value(p - 1) && c == n) {
        assert!(c == n && bb.value(p - 1), "exactly n set bits before p, the last one at p - 1");
    } else {
        assert!(c < n, "fewer than n set bits => len");
    }
    kani::cover!(n == 3 && p < len && p > start + 4);
    kani::cover!(n == 2 && p == len && c < 2);
    std::mem::forget(bb);
}

//@ tier: quick
//@ functions: arrow_buffer::BooleanBuffer::eq (PartialEq), BitChunks::iter_padded
//@ bound: two 11-byte buffers, independent bit offsets 0..=13, lengths 0..=70: == is true iff the lengths and every logical bit agree, whatever the offsets and the bits outside the ranges; unwind 11
//@ stub: alloc::fmt::format -> empty String
#[kani::proof]
#[kani::unwind(11)]
#[kani::stub(alloc::fmt::format, stub_format)]
fn c19_boolean_buffer_eq_is_logical() {
    let l: [u8; 11] = kani::any();
    let r: [u8; 11] = kani::any();
    let lo: usize = kani::any();
    let ro: usize = kani::any();
    let ll: usize = kani::any();
    let rl: usize = kani::any();
    kani::assume(lo <= 13 && ro <= 13 && ll <= 70 && rl <= 70);
    let a = BooleanBuffer::new(Buffer::from_vec(l.to_vec()), lo, ll);
    let b = BooleanBuffer::new(Buffer::from_vec(r.to_vec()), ro, rl);
    let eq = a == b;
    let i: usize = kani::any();
    if eq {
        assert!(ll == rl, "equal => same length");
        if i < ll {
            assert!(bit(&l, lo + i) == bit(&r, ro + i), "equal => same bits");
        }
    }
    if ll != rl || (i < ll && bit(&l, lo + i) != bit(&r, ro + i)) {
        assert!(!eq, "a logical difference => not equal");
    }
    kani::cover!(eq && ll > 64 && lo != ro);
    kani::cover!(!eq && ll == rl && ll > 64);
    std::mem::forget(a);
    std::mem::forget(b);
}
