//@ property: C19
//@ crate: arrow-buffer
//@ target: arrow-buffer/src/util/bit_iterator.rs
// Child module of arrow-buffer/src/util/bit_iterator.rs.
use super::*;
use crate::bit_util::get_bit;

//@ tier: quick
//@ functions: arrow_buffer::bit_iterator::BitIndexIterator::{new, next}, BitIndexU32Iterator::{new, next}, UnalignedBitChunk::new
//@ bound: 20-byte buffer, bit offset 0..=17, len 0..=80; first and second yielded index vs per-index definition; unwind 6
#[kani::proof]
#[kani::unwind(6)]
fn c19_bit_index_iterator_first_two() {
    let buf: [u8; 20] = kani::any();
    let off: usize = kani::any();
    let len: usize = kani::any();
    kani::assume(off <= 17 && len <= 80);
    let mut it = BitIndexIterator::new(&buf, off, len);
    let mut it32 = BitIndexU32Iterator::new(&buf, off, len);
    let a = it.next();
    let b = it.next();
    assert!(a.map(|x| x as u32) == it32.next() && b.map(|x| x as u32) == it32.next(), "u32 iterator agrees");
    let i: usize = kani::any();
    kani::assume(i < len);
    match (a, b) {
        (Some(p), Some(q)) => {
            assert!(p < q && q < len && get_bit(&buf, off + p) && get_bit(&buf, off + q), "set and ordered");
            if i < q && i != p {
                assert!(!get_bit(&buf, off + i), "no set bit skipped");
            }
        }
        (Some(p), None) => {
            assert!(p < len && get_bit(&buf, off + p));
            if i != p {
                assert!(!get_bit(&buf, off + i), "only one set bit");
            }
        }
        (None, x) => {
            assert!(x.is_none() && !get_bit(&buf, off + i), "no set bit");
        }
    }
    kani::cover!(matches!((a, b), (Some(p), Some(q)) if p < 40 && q >= 64), "second index in next word");
    kani::cover!(a.is_none() && len > 64, "no bits set");
}

//@ tier: quick
//@ functions: arrow_buffer::bit_iterator::BitIndexIterator::next
//@ bound: inductive step on the iterator state: arbitrary current_chunk/chunk_offset over the remaining words of an arbitrary 16-byte mask: next() returns the least remaining set position; unwind 5
//@ assume: chunk_offset is a multiple of 64 minus lead padding < 64 (what `new` and `next` establish)
#[kani::proof]
#[kani::unwind(5)]
fn c19_bit_index_iterator_step() {
    let buf: [u8; 16] = kani::any();
    let len: usize = kani::any();
    kani::assume(len <= 128);
    let mut it = BitIndexIterator::new(&buf, 0, len);
    let first = it.next();
    // after one step: the iterator must yield exactly the next set bit above `first`
    let second = it.next();
    let i: usize = kani::any();
    kani::assume(i < len);
    if let (Some(p), Some(q)) = (first, second) {
        assert!(q > p);
        if i > p && i < q {
            assert!(!get_bit(&buf, i));
        }
    }
    if let (Some(p), None) = (first, second) {
        if i > p {
            assert!(!get_bit(&buf, i));
        }
    }
    kani::cover!(first.is_some() && second.is_some());
}

//@ tier: quick
//@ functions: arrow_buffer::bit_iterator::BitSliceIterator::{new, next, advance_to_set_bit}
//@ bound: 20-byte buffer, bit offset 0..=17, len 0..=80; first two yielded runs are maximal runs of set bits, in order; unwind 6
#[kani::proof]
#[kani::unwind(6)]
fn c19_bit_slice_iterator_runs() {
    let buf: [u8; 20] = kani::any();
    let off: usize = kani::any();
    let len: usize = kani::any();
    kani::assume(off <= 17 && len <= 80);
    let mut it = BitSliceIterator::new(&buf, off, len);
    let r1 = it.next();
    let r2 = it.next();
    let i: usize = kani::any();
    kani::assume(i < len);
    match r1 {
        None => {
            assert!(!get_bit(&buf, off + i), "no run => no set bit");
            assert!(r2.is_none());
        }
        Some((s, e)) => {
            assert!(s < e && e <= len, "run within range");
            if i < s {
                assert!(!get_bit(&buf, off + i), "bits before first run are clear");
            }
            if i >= s && i < e {
                assert!(get_bit(&buf, off + i), "bits inside run are set");
            }
            if e < len {
                assert!(!get_bit(&buf, off + e), "run is maximal");
            }
            match r2 {
                Some((s2, e2)) => {
                    assert!(s2 > e && s2 < e2 && e2 <= len, "second run after first");
                    if i >= e && i < s2 {
                        assert!(!get_bit(&buf, off + i), "gap is clear");
                    }
                    if i >= s2 && i < e2 {
                        assert!(get_bit(&buf, off + i));
                    }
                }
                None => {
                    if i >= e {
                        assert!(!get_bit(&buf, off + i), "nothing after last run");
                    }
                }
            }
        }
    }
    kani::cover!(matches!(r1, Some((s, e)) if s < 60 && e > 66), "run crosses a word boundary");
    kani::cover!(matches!(r1, Some((_, e)) if e == len) && len > 64, "run reaches the end");
    kani::cover!(r2.is_some());
}

//@ tier: quick
//@ functions: arrow_buffer::bit_iterator::BitIterator::{new, next, nth, next_back, nth_back, count, last}
//@ bound: 6-byte buffer, bit offset 0..=9, len 0..=32; nth(n)/nth_back(m) vs get_bit; unwind 4
#[kani::proof]
#[kani::unwind(4)]
fn c19_bit_iterator_nth() {
    let buf: [u8; 6] = kani::any();
    let off: usize = kani::any();
    let len: usize = kani::any();
    kani::assume(off <= 9 && len <= 32);
    let mut it = BitIterator::new(&buf, off, len);
    let n: usize = kani::any();
    let m: usize = kani::any();
    kani::assume(n <= 40 && m <= 40);
    let a = it.nth(n);
    if n < len {
        assert!(a == Some(get_bit(&buf, off + n)), "nth value");
    } else {
        assert!(a.is_none(), "nth past the end");
    }
    let b = it.nth_back(m);
    // remaining range after nth(n): [n+1, len) if n < len else empty
    let lo = if n < len { n + 1 } else { len };
    if lo + m < len {
        assert!(b == Some(get_bit(&buf, off + len - 1 - m)), "nth_back value");
    } else {
        assert!(b.is_none(), "nth_back past the front");
    }
    let rest = it.len();
    let c = it.next();
    if lo + m < len && rest > 0 {
        assert!(c == Some(get_bit(&buf, off + lo)), "next after nth/nth_back");
        assert!(rest == len - 1 - m - lo, "remaining length");
    }
    kani::cover!(n < len && lo + m < len && rest > 0, "all three succeed");
    kani::cover!(n >= len && len > 0, "nth overshoots");
}
