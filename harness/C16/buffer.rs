//@ property: C16
//@ crate: arrow-buffer
//@ target: arrow-buffer/src/buffer/immutable.rs
// Child module of arrow-buffer/src/buffer/immutable.rs. Sequential histories only (Kani has no threads).
use super::*;
use crate::MutableBuffer;

fn stub_format(_a: std::fmt::Arguments<'_>) -> String {
    String::new()
}

//@ tier: quick
//@ functions: arrow_buffer::Buffer::{from_vec, slice_with_length, clone, into_mutable, ptr_offset}, MutableBuffer::{from_bytes, as_slice_mut, set_len}, Drop for Bytes
//@ bound: 8-byte region, every slice (offset, len), with or without a second live handle: conversion to a mutable buffer succeeds only when the handle is unique and starts at the region's first byte; a live alias reads the original bytes after the (attempted) mutation; Kani's memory model checks every access and every drop (no use-after-free, no double free); unwind 10
//@ stub: alloc::fmt::format -> empty String
#[kani::proof]
#[kani::unwind(10)]
#[kani::stub(alloc::fmt::format, stub_format)]
fn c16_into_mutable_never_mutates_shared() {
    let data: [u8; 8] = kani::any();
    let a = Buffer::from_vec(data.to_vec());
    let keep_alias: bool = kani::any();
    let off: usize = kani::any();
    let len: usize = kani::any();
    kani::assume(off <= 8 && len <= 8 - off);
    let view = a.slice_with_length(off, len);
    let alias = if keep_alias { Some(a.clone()) } else { None };
    drop(a);
    match view.into_mutable() {
        Ok(mut m) => {
            assert!(!keep_alias, "in-place conversion only for a unique handle");
            assert!(off == 0, "in-place conversion only from the first byte of the region");
            assert!(m.len() == len);
            let s = m.as_slice_mut();
            let mut i = 0;
            while i < s.len() {
                s[i] = !s[i];
                i += 1;
            }
            kani::cover!(len == 5, "unique front slice converted");
            drop(m);
        }
        Err(b) => {
            assert!(keep_alias || off > 0, "a unique unsliced handle must convert");
            assert!(b.len() == len);
            let i: usize = kani::any();
            if i < len {
                assert!(b.as_slice()[i] == data[off + i], "declined conversion returns the same bytes");
            }
            drop(b);
        }
    }
    if let Some(al) = alias {
        let i: usize = kani::any();
        kani::assume(i < 8);
        assert!(al.as_slice()[i] == data[i], "alias never observes a mutation");
        kani::cover!(off == 0, "shared front slice declined");
    }
}

//@ tier: quick
//@ functions: arrow_buffer::Buffer::{into_vec::<u8>, into_vec::<u32>, from_vec, slice_with_length, clone}
//@ bound: 8-byte region from Vec<u32>, every byte slice, with/without alias: into_vec succeeds only for a unique, un-offset handle with matching layout; alias unchanged after mutation of the returned Vec; unwind 10
//@ stub: alloc::fmt::format -> empty String
#[kani::proof]
#[kani::unwind(10)]
#[kani::stub(alloc::fmt::format, stub_format)]
fn c16_into_vec_never_takes_shared() {
    let data: [u32; 2] = kani::any();
    let a = Buffer::from_vec(data.to_vec());
    let keep_alias: bool = kani::any();
    let off: usize = kani::any();
    let len: usize = kani::any();
    kani::assume(off <= 8 && len <= 8 - off);
    let view = a.slice_with_length(off, len);
    let alias = if keep_alias { Some(a.clone()) } else { None };
    drop(a);
    match view.into_vec::<u32>() {
        Ok(mut v) => {
            assert!(!keep_alias && off == 0, "Vec taken only from a unique un-offset handle");
            assert!(v.len() == len / 4);
            if !v.is_empty() {
                v[0] = !v[0];
            }
            kani::cover!(len == 8);
            drop(v);
        }
        Err(b) => {
            assert!(b.len() == len);
            // a u8 view of a Vec<u32> allocation must also decline (layout mismatch)
            match b.into_vec::<u8>() {
                Ok(_) => assert!(false, "layout mismatch must decline"),
                Err(b2) => drop(b2),
            }
        }
    }
    if let Some(al) = alias {
        let t = al.typed_data::<u32>();
        assert!(t[0] == data[0] && t[1] == data[1], "alias never observes a mutation");
    }
}

use std::ptr::NonNull;
use std::sync::Arc;

static mut DROPS: u32 = 0;
struct Owner {
    mem: [u8; 8],
}
impl Drop for Owner {
    fn drop(&mut self) {
        unsafe {
            DROPS += 1;
        }
        // scribble: any later read through a stale handle would see different bytes
        self.mem = [0xAA; 8];
    }
}

//@ tier: quick
//@ functions: arrow_buffer::Buffer::{from_custom_allocation, slice_with_length, clone, into_mutable, into_vec}, Drop for Bytes (Deallocation::Custom)
//@ bound: region owned by a custom Allocation behind three handles (original, slice with symbolic bounds, clone), every rotation of the drop order with an attempted in-place conversion in between: owner released exactly once and only after the last handle; conversions always decline; remaining handles stay readable; unwind 10
//@ stub: alloc::fmt::format -> empty String
#[kani::proof]
#[kani::unwind(10)]
#[kani::stub(alloc::fmt::format, stub_format)]
fn c16_custom_owner_released_once() {
    let data: [u8; 8] = kani::any();
    let owner = Arc::new(Owner { mem: data });
    let ptr = NonNull::new(owner.mem.as_ptr() as *mut u8).unwrap();
    let a = unsafe { Buffer::from_custom_allocation(ptr, 8, owner) };
    let off: usize = kani::any();
    let len: usize = kani::any();
    kani::assume(off <= 8 && len <= 8 - off);
    let b = a.slice_with_length(off, len);
    let c = a.clone();
    let first: u8 = kani::any();
    kani::assume(first < 3);
    let (x, y, z) = match first {
        0 => (a, b, c),
        1 => (b, c, a),
        _ => (c, a, b),
    };
    drop(x);
    assert!(unsafe { DROPS } == 0, "owner alive while handles remain");
    let y = match y.into_mutable() {
        Ok(_) => {
            assert!(false, "custom-owned memory must never become mutable in place");
            return;
        }
        Err(buf) => buf,
    };
    let y = match y.into_vec::<u8>() {
        Ok(_) => {
            assert!(false, "custom-owned memory must never become a Vec");
            return;
        }
        Err(buf) => buf,
    };
    let i: usize = kani::any();
    if i < z.len() {
        let zoff = if first == 0 { 0 } else if first == 1 { 0 } else { off };
        assert!(z.as_slice()[i] == data[zoff + i], "still readable, unchanged");
    }
    drop(y);
    assert!(unsafe { DROPS } == 0, "owner alive until the last handle");
    drop(z);
    assert!(unsafe { DROPS } == 1, "released exactly once");
    kani::cover!(first == 2 && len > 0);
    kani::cover!(first == 0);
}
