//@ property: C16
//@ crate: arrow-buffer
//@ target: arrow-buffer/src/buffer/boolean.rs
// Child module of arrow-buffer/src/buffer/boolean.rs.
use super::*;

fn stub_format(_a: std::fmt::Arguments<'_>) -> String {
    String::new()
}

//@ tier: quick
//@ functions: arrow_buffer::BooleanBuffer::{bitand_assign, bitor_assign, bitwise_bin_op_assign}, Buffer::into_mutable, apply_bitwise_binary_op, from_bitwise_binary_op
//@ bound: 2-byte masks, left operand a 9..=12-bit view at bit offset 2..=3 that is either uniquely owned or shared with a second live handle; `&=` with an arbitrary right operand at bit offset 1 (operand offsets equal mod 64 select the u64-aligned fast path, which exceeds the memory cap and is outside the claim): the result equals the pure op per index, and the other handle (if any) still reads its original bits (in place only when unique); unwind 8
//@ stub: alloc::fmt::format -> empty String
#[kani::proof]
#[kani::unwind(8)]
#[kani::stub(alloc::fmt::format, stub_format)]
fn c16_bitand_assign_never_mutates_shared() {
    let l: [u8; 2] = kani::any();
    let r: [u8; 2] = kani::any();
    let off: usize = kani::any();
    let len: usize = kani::any();
    kani::assume(off >= 2 && off <= 3 && len >= 9 && len <= 12);
    let lb = Buffer::from_vec(l.to_vec());
    let shared: bool = kani::any();
    let alias = if shared { Some(lb.clone()) } else { None };
    let mut left = BooleanBuffer::new(lb, off, len);
    let right = BooleanBuffer::new(Buffer::from_vec(r.to_vec()), 1, len);
    left &= &right;
    assert!(left.len() == len);
    let i: usize = kani::any();
    kani::assume(i < len);
    let lbit = (l[(off + i) / 8] >> ((off + i) % 8)) & 1 == 1;
    let rbit = (r[(1 + i) / 8] >> ((1 + i) % 8)) & 1 == 1;
    assert!(left.value(i) == (lbit && rbit), "result = pure AND");
    if let Some(al) = alias {
        let k: usize = kani::any();
        kani::assume(k < 2);
        assert!(al.as_slice()[k] == l[k], "the other handle's bytes are unchanged");
        std::mem::forget(al);
    }
    std::mem::forget(left);
    std::mem::forget(right);
    kani::cover!(shared);
    kani::cover!(!shared && off == 3);
}
