//@ property: C16
//@ crate: arrow-buffer
//@ target: arrow-buffer/src/buffer/boolean.rs
// Child module of arrow-buffer/src/buffer/boolean.rs.
use super::*;

fn stub_format(_a: std::fmt::Arguments<'_>) -> String {
    String::new()
}

// C16 is about WHICH memory is written, not about the word kernels (those are C19's obligations): both kernels
// are replaced by bit-by-bit reference models of their documented contracts, so that the ownership logic of
// bitwise_bin_op_assign can be decided (with the real kernels the harnesses exceed the 12 GB cap).
fn ref_apply_bitwise_binary_op<F, R>(left: &mut [u8], lo: usize, right: R, ro: usize, len: usize, mut op: F)
where
    F: FnMut(u64, u64) -> u64,
    R: AsRef<[u8]>,
{
    let r = right.as_ref();
    let mut i = 0;
    while i < 12 {
        if i < len {
            let a = ((left[(lo + i) / 8] >> ((lo + i) % 8)) & 1) as u64;
            let b = ((r[(ro + i) / 8] >> ((ro + i) % 8)) & 1) as u64;
            let v = op(a, b) & 1;
            let m = 1u8 << ((lo + i) % 8);
            if v == 1 {
                left[(lo + i) / 8] |= m;
            } else {
                left[(lo + i) / 8] &= !m;
            }
        }
        i += 1;
    }
}

fn ref_from_bitwise_binary_op<F, L, R>(left: L, lo: usize, right: R, ro: usize, len: usize, mut op: F) -> BooleanBuffer
where
    F: FnMut(u64, u64) -> u64,
    L: AsRef<[u8]>,
    R: AsRef<[u8]>,
{
    let (l, r) = (left.as_ref(), right.as_ref());
    let mut a = 0u64;
    let mut b = 0u64;
    let mut i = 0;
    while i < 12 {
        if i < len {
            a |= (((l[(lo + i) / 8] >> ((lo + i) % 8)) & 1) as u64) << i;
            b |= (((r[(ro + i) / 8] >> ((ro + i) % 8)) & 1) as u64) << i;
        }
        i += 1;
    }
    BooleanBuffer::new(Buffer::from_vec(vec![op(a, b)]), 0, len)
}

//@ tier: quick
//@ functions: arrow_buffer::BooleanBuffer::{bitand_assign, bitor_assign, bitwise_bin_op_assign}, Buffer::into_mutable, apply_bitwise_binary_op, from_bitwise_binary_op
//@ bound: 2-byte masks, left operand a 12-bit view at bit offset 3 that is shared with a second live handle (the unique case is c16_bitand_assign_in_place_when_unique); `&=` with an arbitrary right operand at bit offset 1 (operand offsets equal mod 64 select the u64-aligned fast path, which exceeds the memory cap and is outside the claim): the result equals the pure op per index, and the other handle (if any) still reads its original bits (in place only when unique); unwind 8
//@ stub: alloc::fmt::format -> empty String; bit_util::apply_bitwise_binary_op and BooleanBuffer::from_bitwise_binary_op -> bit-by-bit reference models of their contracts (the word kernels are C19's obligations)
#[kani::proof]
#[kani::unwind(14)]
#[kani::stub(alloc::fmt::format, stub_format)]
#[kani::stub(crate::util::bit_util::apply_bitwise_binary_op, ref_apply_bitwise_binary_op)]
#[kani::stub(BooleanBuffer::from_bitwise_binary_op, ref_from_bitwise_binary_op)]
fn c16_bitand_assign_never_mutates_shared() {
    bitand_assign_model(true);
}

//@ tier: quick
//@ timeout: 900
//@ functions: arrow_buffer::BooleanBuffer::{bitand_assign, bitwise_bin_op_assign} on a uniquely owned buffer (in-place path: Buffer::into_mutable + apply_bitwise_binary_op)
//@ bound: as c16_bitand_assign_never_mutates_shared with a unique left operand: the in-place result equals the pure AND per index; unwind 8
//@ stub: alloc::fmt::format -> empty String; bit_util::apply_bitwise_binary_op and BooleanBuffer::from_bitwise_binary_op -> bit-by-bit reference models of their contracts (the word kernels are C19's obligations)
#[kani::proof]
#[kani::unwind(14)]
#[kani::stub(alloc::fmt::format, stub_format)]
#[kani::stub(crate::util::bit_util::apply_bitwise_binary_op, ref_apply_bitwise_binary_op)]
#[kani::stub(BooleanBuffer::from_bitwise_binary_op, ref_from_bitwise_binary_op)]
fn c16_bitand_assign_in_place_when_unique() {
    bitand_assign_model(false);
}

fn bitand_assign_model(shared: bool) {
    let l: [u8; 2] = kani::any();
    let r: [u8; 2] = kani::any();
    let off: usize = kani::any();
    let len: usize = kani::any();
    kani::assume(off == 3 && len == 12); // concrete sizes: the allocating fallback path needs concrete lengths (DESIGN 10.2)
    let lb = Buffer::from_vec(l.to_vec());
    let alias = if shared { Some(lb.clone()) } else { None };
    let mut left = BooleanBuffer::new(lb, off, len);
    let right = BooleanBuffer::new(Buffer::from_vec(r.to_vec()), 1, len);
    left &= &right;
    assert!(left.len() == len);
    let i: usize = kani::any();
    kani::assume(i < len);
    let lbit = (l[(off + i) / 8] >> ((off + i) % 8)) & 1 == 1;
    let rbit = (r[(1 + i) / 8] >> ((1 + i) % 8)) & 1 == 1;
    assert!(left.value(i) == (lbit && rbit), "result = pure AND");
    if let Some(al) = alias {
        let k: usize = kani::any();
        kani::assume(k < 2);
        assert!(al.as_slice()[k] == l[k], "the other handle's bytes are unchanged");
        std::mem::forget(al);
    }
    std::mem::forget(left);
    std::mem::forget(right);
    kani::cover!(lbit && rbit);
    kani::cover!(lbit && !rbit);
}

use std::ptr::NonNull;
use std::sync::Arc;

struct Region {
    mem: [u8; 2],
}

//@ tier: quick
//@ timeout: 900
//@ functions: arrow_buffer::BooleanBuffer::{bitand_assign, bitor_assign, bitwise_bin_op_assign} on memory owned by a custom Allocation (Buffer::from_custom_allocation), Buffer::into_mutable
//@ bound: 2-byte region owned by a custom Allocation whose owner is still alive, wrapped in ONE arrow Buffer handle (Arc strong count 1); left operand a 12-bit view at bit offset 3, right operand arbitrary at bit offset 1; `&=` (the `|=` instance is c16_bitor_assign_leaves_custom_owned_memory_alone): the owner's bytes are unchanged afterwards (a custom-owned region is never mutated in place) and the result equals the pure op per index; unwind 8
//@ stub: alloc::fmt::format -> empty String; bit_util::apply_bitwise_binary_op and BooleanBuffer::from_bitwise_binary_op -> bit-by-bit reference models of their contracts (the word kernels are C19's obligations)
#[kani::proof]
#[kani::unwind(14)]
#[kani::stub(alloc::fmt::format, stub_format)]
#[kani::stub(crate::util::bit_util::apply_bitwise_binary_op, ref_apply_bitwise_binary_op)]
#[kani::stub(BooleanBuffer::from_bitwise_binary_op, ref_from_bitwise_binary_op)]
fn c16_bit_assign_never_writes_custom_owned_memory() {
    custom_owned_model(false);
}

//@ tier: quick
//@ timeout: 900
//@ functions: arrow_buffer::BooleanBuffer::{bitor_assign, bitwise_bin_op_assign} on memory owned by a custom Allocation, Buffer::into_mutable
//@ bound: as c16_bit_assign_never_writes_custom_owned_memory, for `|=`
//@ stub: alloc::fmt::format -> empty String; bit_util::apply_bitwise_binary_op and BooleanBuffer::from_bitwise_binary_op -> bit-by-bit reference models of their contracts (the word kernels are C19's obligations)
#[kani::proof]
#[kani::unwind(14)]
#[kani::stub(alloc::fmt::format, stub_format)]
#[kani::stub(crate::util::bit_util::apply_bitwise_binary_op, ref_apply_bitwise_binary_op)]
#[kani::stub(BooleanBuffer::from_bitwise_binary_op, ref_from_bitwise_binary_op)]
fn c16_bitor_assign_leaves_custom_owned_memory_alone() {
    custom_owned_model(true);
}

fn custom_owned_model(or: bool) {
    let l: [u8; 2] = kani::any();
    let r: [u8; 2] = kani::any();
    let owner = Arc::new(Region { mem: l });
    let ptr = NonNull::new(owner.mem.as_ptr() as *mut u8).unwrap();
    let lb = unsafe { Buffer::from_custom_allocation(ptr, 2, owner.clone()) };
    let mut left = BooleanBuffer::new(lb, 3, 12);
    let right = BooleanBuffer::new(Buffer::from_vec(r.to_vec()), 1, 12);
    if or {
        left |= &right;
    } else {
        left &= &right;
    }
    assert!(owner.mem[0] == l[0] && owner.mem[1] == l[1], "memory behind a live custom owner is never written");
    let i: usize = kani::any();
    kani::assume(i < 12);
    let lbit = (l[(3 + i) / 8] >> ((3 + i) % 8)) & 1 == 1;
    let rbit = (r[(1 + i) / 8] >> ((1 + i) % 8)) & 1 == 1;
    assert!(left.value(i) == if or { lbit || rbit } else { lbit && rbit }, "result = pure op");
    kani::cover!(lbit != rbit, "a bit that an in-place update would have changed");
    std::mem::forget(left);
    std::mem::forget(right);
}
