//@ property: C16
//@ crate: arrow-buffer
//@ target: arrow-buffer/src/buffer/boolean.rs
// Child module of arrow-buffer/src/buffer/boolean.rs.
use super::*;

fn stub_format(_a: std::fmt::Arguments<'_>) -> String {
    String::new()
}

//@ tier: quick
//@ functions: arrow_buffer::BooleanBuffer::{bitand_assign, bitor_assign, bitwise_bin_op_assign}, Buffer::into_mutable, apply_bitwise_binary_op, from_bitwise_binary_op
//@ bound: 2-byte masks, left operand a 12-bit view at bit offset 3 that is shared with a second live handle (the unique case is c16_bitand_assign_in_place_when_unique); `&=` with an arbitrary right operand at bit offset 1 (operand offsets equal mod 64 select the u64-aligned fast path, which exceeds the memory cap and is outside the claim): the result equals the pure op per index, and the other handle (if any) still reads its original bits (in place only when unique); unwind 8
//@ stub: alloc::fmt::format -> empty String
#[kani::proof]
#[kani::unwind(8)]
#[kani::stub(alloc::fmt::format, stub_format)]
fn c16_bitand_assign_never_mutates_shared() {
    bitand_assign_model(true);
}

//@ tier: quick
//@ timeout: 900
//@ functions: arrow_buffer::BooleanBuffer::{bitand_assign, bitwise_bin_op_assign} on a uniquely owned buffer (in-place path: Buffer::into_mutable + apply_bitwise_binary_op)
//@ bound: as c16_bitand_assign_never_mutates_shared with a unique left operand: the in-place result equals the pure AND per index; unwind 8
//@ stub: alloc::fmt::format -> empty String
#[kani::proof]
#[kani::unwind(8)]
#[kani::stub(alloc::fmt::format, stub_format)]
fn c16_bitand_assign_in_place_when_unique() {
    bitand_assign_model(false);
}

fn bitand_assign_model(shared: bool) {
    let l: [u8; 2] = kani::any();
    let r: [u8; 2] = kani::any();
    let off: usize = kani::any();
    let len: usize = kani::any();
    kani::assume(off == 3 && len == 12); // concrete sizes: the allocating fallback path needs concrete lengths (DESIGN 10.2)
    let lb = Buffer::from_vec(l.to_vec());
    let alias = if shared { Some(lb.clone()) } else { None };
    let mut left = BooleanBuffer::new(lb, off, len);
    let right = BooleanBuffer::new(Buffer::from_vec(r.to_vec()), 1, len);
    left &= &right;
    assert!(left.len() == len);
    let i: usize = kani::any();
    kani::assume(i < len);
    let lbit = (l[(off + i) / 8] >> ((off + i) % 8)) & 1 == 1;
    let rbit = (r[(1 + i) / 8] >> ((1 + i) % 8)) & 1 == 1;
    assert!(left.value(i) == (lbit && rbit), "result = pure AND");
    if let Some(al) = alias {
        let k: usize = kani::any();
        kani::assume(k < 2);
        assert!(al.as_slice()[k] == l[k], "the other handle's bytes are unchanged");
        std::mem::forget(al);
    }
    std::mem::forget(left);
    std::mem::forget(right);
    kani::cover!(lbit && rbit);
    kani::cover!(lbit && !rbit);
}

use std::ptr::NonNull;
use std::sync::Arc;

struct Region {
    mem: [u8; 2],
}

//@ tier: quick
//@ timeout: 900
//@ functions: arrow_buffer::BooleanBuffer::{bitand_assign, bitor_assign, bitwise_bin_op_assign} on memory owned by a custom Allocation (Buffer::from_custom_allocation), Buffer::into_mutable
//@ bound: 2-byte region owned by a custom Allocation whose owner is still alive, wrapped in ONE arrow Buffer handle (Arc strong count 1); left operand a 12-bit view at bit offset 3, right operand arbitrary at bit offset 1; `&=` or `|=`: the owner's bytes are unchanged afterwards (a custom-owned region is never mutated in place) and the result equals the pure op per index; unwind 8
//@ stub: alloc::fmt::format -> empty String
#[kani::proof]
#[kani::unwind(8)]
#[kani::stub(alloc::fmt::format, stub_format)]
fn c16_bit_assign_never_writes_custom_owned_memory() {
    let l: [u8; 2] = kani::any();
    let r: [u8; 2] = kani::any();
    let owner = Arc::new(Region { mem: l });
    let ptr = NonNull::new(owner.mem.as_ptr() as *mut u8).unwrap();
    let lb = unsafe { Buffer::from_custom_allocation(ptr, 2, owner.clone()) };
    let mut left = BooleanBuffer::new(lb, 3, 12);
    let right = BooleanBuffer::new(Buffer::from_vec(r.to_vec()), 1, 12);
    let or: bool = kani::any();
    if or {
        left |= &right;
    } else {
        left &= &right;
    }
    assert!(owner.mem[0] == l[0] && owner.mem[1] == l[1], "memory behind a live custom owner is never written");
    let i: usize = kani::any();
    kani::assume(i < 12);
    let lbit = (l[(3 + i) / 8] >> ((3 + i) % 8)) & 1 == 1;
    let rbit = (r[(1 + i) / 8] >> ((1 + i) % 8)) & 1 == 1;
    assert!(left.value(i) == if or { lbit || rbit } else { lbit && rbit }, "result = pure op");
    kani::cover!(or && !lbit && rbit, "a bit that an in-place OR would have set");
    kani::cover!(!or && lbit && !rbit, "a bit that an in-place AND would have cleared");
    std::mem::forget(left);
    std::mem::forget(right);
}
