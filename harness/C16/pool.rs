//@ property: C16
//@ crate: arrow-buffer
//@ target: arrow-buffer/src/buffer/immutable.rs
//@ cargo_args: --features pool
// Child module of arrow-buffer/src/buffer/immutable.rs, built with the non-default `pool` feature: the memory-pool
// accounting of a claimed buffer across the immutable -> mutable -> immutable conversions.  At every quiescent
// point the pool's `used()` equals the total capacity of the live claimed regions.
use super::*;
use crate::pool::{MemoryPool, TrackingMemoryPool};
use crate::MutableBuffer;

fn stub_format(_a: std::fmt::Arguments<'_>) -> String {
    String::new()
}

fn pool_model(convert: bool, back: bool) {
    let pool = TrackingMemoryPool::default();
    let data: [u8; 16] = kani::any();
    let b = Buffer::from_vec(data.to_vec());
    let cap = b.capacity();
    b.claim(&pool);
    assert!(pool.used() == cap, "a claimed buffer is accounted with its capacity");
    if convert {
        match b.into_mutable() {
            Ok(m) => {
                assert!(pool.used() == cap, "the in-place conversion keeps the region accounted exactly once");
                if back {
                    let b2: Buffer = m.into();
                    assert!(pool.used() == cap, "and so does converting back");
                    drop(b2);
                } else {
                    drop(m);
                }
            }
            Err(b) => {
                assert!(false, "a unique handle at offset 0 converts in place");
                drop(b);
            }
        }
    } else {
        drop(b);
    }
    assert!(pool.used() == 0, "once the last owner is dropped the pool accounts nothing");
    kani::cover!(cap >= 16);
}

macro_rules! pool_instance {
    ($name:ident, $convert:expr, $back:expr) => {
        #[kani::proof]
        #[kani::unwind(6)]
        #[kani::stub(alloc::fmt::format, stub_format)]
        fn $name() {
            pool_model($convert, $back);
        }
    };
}

//@ tier: quick
//@ timeout: 900
//@ functions: arrow_buffer::Buffer::{claim, into_mutable}, MutableBuffer::from_bytes, Drop for MutableBuffer, Bytes::claim, pool::{TrackingMemoryPool, Tracker} (feature `pool`)
//@ bound: one 16-byte standard allocation (arbitrary content) claimed by a tracking pool while immutable, converted in place to a MutableBuffer and dropped: the pool reports the region's capacity while an owner is alive and 0 once it is gone — the reservation is neither leaked nor counted twice; unwind 6
//@ stub: alloc::fmt::format -> empty String
pool_instance!(c16_pool_accounting_into_mutable_then_drop, true, false);
//@ tier: quick
//@ timeout: 900
//@ functions: arrow_buffer::Buffer::{claim, into_mutable}, MutableBuffer::{from_bytes, into_buffer}, Bytes::claim (feature `pool`)
//@ bound: as c16_pool_accounting_into_mutable_then_drop, converting back to an immutable Buffer before the drop; unwind 6
//@ stub: alloc::fmt::format -> empty String
pool_instance!(c16_pool_accounting_round_trip_then_drop, true, true);
//@ tier: quick
//@ timeout: 900
//@ functions: arrow_buffer::Buffer::claim, Drop for Bytes (feature `pool`)
//@ bound: as c16_pool_accounting_into_mutable_then_drop, dropping the claimed Buffer directly; unwind 6
//@ stub: alloc::fmt::format -> empty String
pool_instance!(c16_pool_accounting_claim_then_drop, false, false);
