//@ property: C16
//@ crate: arrow-buffer
//@ target: arrow-buffer/src/buffer/immutable.rs
//@ cargo_args: --features pool
// Child module of arrow-buffer/src/buffer/immutable.rs, built with the non-default `pool` feature: the memory-pool
// accounting of a claimed buffer across the immutable -> mutable -> immutable conversions.  At every quiescent
// point the pool's `used()` equals the total capacity of the live claimed regions.
use super::*;
use crate::pool::{MemoryPool, TrackingMemoryPool};
use crate::MutableBuffer;

fn stub_format(_a: std::fmt::Arguments<'_>) -> String {
    String::new()
}

//@ tier: quick
//@ timeout: 900
//@ functions: arrow_buffer::Buffer::{claim, into_mutable}, MutableBuffer::{from_bytes, into_buffer, claim}, Bytes::claim, pool::{TrackingMemoryPool, Tracker} (feature `pool`)
//@ bound: one 16-byte standard allocation claimed by a tracking pool while immutable, then (symbolic choice) converted in place to a MutableBuffer, optionally back to a Buffer, and dropped, or dropped directly: the pool reports the region's capacity while any owner is alive and 0 once the last owner is gone — no reservation is leaked or counted twice; unwind 6
//@ stub: alloc::fmt::format -> empty String
#[kani::proof]
#[kani::unwind(6)]
#[kani::stub(alloc::fmt::format, stub_format)]
fn c16_pool_accounting_follows_the_region() {
    let pool = TrackingMemoryPool::default();
    let data: [u8; 16] = kani::any();
    let b = Buffer::from_vec(data.to_vec());
    let cap = b.capacity();
    b.claim(&pool);
    assert!(pool.used() == cap, "a claimed buffer is accounted with its capacity");
    let convert: bool = kani::any();
    let back: bool = kani::any();
    if convert {
        match b.into_mutable() {
            Ok(m) => {
                assert!(pool.used() == cap, "the in-place conversion keeps the region accounted exactly once");
                if back {
                    let b2: Buffer = m.into();
                    assert!(pool.used() == cap, "and so does converting back");
                    drop(b2);
                } else {
                    drop(m);
                }
            }
            Err(b) => {
                assert!(false, "a unique handle at offset 0 converts in place");
                drop(b);
            }
        }
    } else {
        drop(b);
    }
    assert!(pool.used() == 0, "once the last owner is dropped the pool accounts nothing");
    kani::cover!(convert && back);
    kani::cover!(!convert);
}
