//@ property: C06
//@ crate: parquet
//@ target: parquet/src/arrow/arrow_reader/selection/selector.rs
// Child module of selection/selector.rs: run-length row selections as sets of row positions.
use super::*;

const K: usize = 2; // selectors
const RC: usize = 3; // max row_count per selector
const W: usize = K * RC; // <= 9 rows, fits a u32 mask

fn any_selectors() -> Vec<RowSelector> {
    // un-normalised lists included: zero-length selectors, adjacent selectors of the same kind
    let n: usize = kani::any();
    kani::assume(n <= K);
    let mut v = Vec::with_capacity(K + 1);
    let mut i = 0;
    while i < K {
        if i < n {
            let rc: usize = kani::any();
            kani::assume(rc <= RC);
            v.push(RowSelector { row_count: rc, skip: kani::any() });
        }
        i += 1;
    }
    v
}

// denotation: (bitmask of selected positions, total rows)
fn denote(s: &[RowSelector]) -> (u32, usize) {
    let mut mask = 0u32;
    let mut pos = 0usize;
    let mut i = 0;
    while i < s.len() {
        let mut j = 0;
        while j < s[i].row_count {
            if !s[i].skip {
                mask |= 1 << pos;
            }
            pos += 1;
            j += 1;
        }
        i += 1;
    }
    (mask, pos)
}

//@ tier: quick
//@ functions: parquet::arrow::arrow_reader::selection::selector::limit_selectors
//@ bound: every selector list of <= 2 selectors with row_count <= 3 (skip/select arbitrary, zero-length and un-merged selectors included), every limit 0..=7: the denotation of the result is exactly the first `limit` selected positions; unwind 11
#[kani::proof]
#[kani::unwind(11)]
fn c06_limit_selectors_denotation() {
    let v = any_selectors();
    let (m, _) = denote(&v);
    let limit: usize = kani::any();
    kani::assume(limit <= W + 1);
    let out = limit_selectors(v, limit);
    let (mo, _) = denote(&out);
    let mut exp = 0u32;
    let mut cnt = 0usize;
    let mut p = 0;
    while p < W {
        if (m >> p) & 1 == 1 && cnt < limit {
            exp |= 1 << p;
            cnt += 1;
        }
        p += 1;
    }
    assert!(mo == exp, "limit keeps exactly the first `limit` selected rows");
    kani::cover!(limit == 2 && m.count_ones() == 3 && m & 1 == 0, "limit cuts inside a later selector");
    kani::cover!(limit == m.count_ones() as usize && limit > 0, "limit equals the selected count");
    kani::cover!(limit == 0 && m != 0);
    std::mem::forget(out);
}

//@ tier: quick
//@ functions: parquet::arrow::arrow_reader::selection::selector::offset_selectors
//@ bound: same selector lists, every offset 0..=7: result denotes all but the first `offset` selected positions and (when non-empty) the same total row count; unwind 11
#[kani::proof]
#[kani::unwind(11)]
fn c06_offset_selectors_denotation() {
    let v = any_selectors();
    let (m, total) = denote(&v);
    let offset: usize = kani::any();
    kani::assume(offset <= W + 1);
    let out = offset_selectors(v, offset);
    let (mo, to) = denote(&out);
    let mut exp = 0u32;
    let mut cnt = 0usize;
    let mut p = 0;
    while p < W {
        if (m >> p) & 1 == 1 {
            if cnt >= offset {
                exp |= 1 << p;
            }
            cnt += 1;
        }
        p += 1;
    }
    assert!(mo == exp, "offset drops exactly the first `offset` selected rows");
    if exp != 0 {
        assert!(to == total, "row positions are preserved");
    }
    kani::cover!(offset == 2 && m.count_ones() == 3, "offset cuts inside a selector");
    kani::cover!(offset as u32 >= m.count_ones() && m != 0, "everything skipped");
    std::mem::forget(out);
}

//@ tier: quick
//@ functions: parquet::arrow::arrow_reader::selection::selector::split_off_selectors
//@ bound: same selector lists, every split row 0..=7: head ++ tail denotes the original selection, head covers min(row_count, total) rows; unwind 11
#[kani::proof]
#[kani::unwind(11)]
fn c06_split_off_selectors_denotation() {
    let v = any_selectors();
    let (m, total) = denote(&v);
    let at: usize = kani::any();
    kani::assume(at <= W + 1);
    let (head, tail) = split_off_selectors(v, at);
    let (mh, th) = denote(&head);
    let (mt, tt) = denote(&tail);
    let cut = if at < total { at } else { total };
    assert!(th == cut && th + tt == total, "head has the first `at` rows, nothing is lost");
    assert!(mh | (mt << th) == m, "head ++ tail denotes the original selection");
    assert!(th == 32 || (mh >> th) == 0, "head selects nothing beyond its rows");
    kani::cover!(at > 0 && at < total && mt != 0 && mh != 0, "split inside a selector");
    kani::cover!(at >= total && total > 0, "split past the end");
    std::mem::forget(head);
    std::mem::forget(tail);
}
