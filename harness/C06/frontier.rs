//@ property: C06
//@ crate: parquet
//@ target: parquet/src/arrow/push_decoder/remaining.rs
// Child module of parquet/src/arrow/push_decoder/remaining.rs: how the push decoder / async stream charges a row
// group that is dropped unread against the OFFSET / LIMIT budget.  OFFSET and LIMIT count rows that survived the
// row selection, so a dropped row group consumes exactly its *selected* rows.
use super::*;

fn stub_format(_a: std::fmt::Arguments<'_>) -> String {
    String::new()
}

// plan_selected_row_group reads only `budget` and `has_predicates`.  The frontier's metadata handle
// (Arc<ParquetMetaData>) cannot be built inside the model checker at reasonable cost (SchemaDescriptor::new walks
// the schema tree recursively: no verdict in 600 s even for an empty root), so the frontier is laid out in
// MaybeUninit storage with every field EXCEPT the metadata handle initialised; that field is never read by the
// function under test and the storage is never dropped.
struct FrontierBox(std::mem::MaybeUninit<RowGroupFrontier>);

impl FrontierBox {
    fn new(budget: RowBudget, has_predicates: bool) -> Self {
        let mut m = std::mem::MaybeUninit::<RowGroupFrontier>::uninit();
        let p = m.as_mut_ptr();
        unsafe {
            std::ptr::addr_of_mut!((*p).row_groups).write(VecDeque::new());
            std::ptr::addr_of_mut!((*p).selection).write(None);
            std::ptr::addr_of_mut!((*p).budget).write(budget);
            std::ptr::addr_of_mut!((*p).has_predicates).write(has_predicates);
        }
        FrontierBox(m)
    }
    fn get(&self) -> &RowGroupFrontier {
        unsafe { &*self.0.as_ptr() }
    }
}

//@ tier: quick
//@ timeout: 600
//@ functions: parquet::arrow::push_decoder::remaining::RowGroupFrontier::plan_selected_row_group, reader_builder::RowBudget::{rows_after, advance}
//@ bound: one planning step from an ARBITRARY budget (offset and limit each absent or any usize) for a row group of any row count with any number 1..=row_count of selected rows, no predicates: the row group is read iff a selected row survives the budget; when it is dropped the remaining offset is reduced by exactly the number of SELECTED rows (not the physical row count) and the limit is unchanged
//@ stub: alloc::fmt::format -> empty String
#[kani::proof]
#[kani::unwind(4)]
#[kani::stub(alloc::fmt::format, stub_format)]
fn c06_frontier_offset_counts_selected_rows() {
    let has_offset: bool = kani::any();
    let has_limit: bool = kani::any();
    let off: usize = kani::any();
    let lim: usize = kani::any();
    let budget = RowBudget::new(if has_offset { Some(off) } else { None }, if has_limit { Some(lim) } else { None });
    let row_count: usize = kani::any();
    let selected: usize = kani::any();
    kani::assume(selected >= 1 && selected <= row_count);
    let fb = FrontierBox::new(budget, false);
    let f = fb.get();
    let next = NextRowGroup { row_group_idx: 0, row_count, selection: None, budget };
    let d = f.plan_selected_row_group(next, selected);
    let eff_off = if has_offset { off } else { 0 };
    let survives = selected > eff_off && !(has_limit && lim == 0);
    match &d {
        QueuedRowGroupDecision::Read(n) => {
            assert!(survives, "a row group is read only if one of its selected rows survives OFFSET/LIMIT");
            assert!(n.row_count == row_count && n.budget.offset() == budget.offset() && n.budget.limit() == budget.limit(), "the work item carries the budget unchanged");
        }
        QueuedRowGroupDecision::Skip { remaining_budget } => {
            assert!(!survives, "a row group with a surviving row is never dropped");
            assert!(remaining_budget.limit() == budget.limit(), "dropping a row group emits nothing: LIMIT unchanged");
            if has_offset && !(has_limit && lim == 0) {
                assert!(remaining_budget.offset() == Some(off - selected), "OFFSET is charged the selected rows of the dropped row group");
            }
        }
    }
    kani::cover!(matches!(d, QueuedRowGroupDecision::Skip { .. }) && selected < row_count && has_offset && off > selected, "partially selected row group swallowed by the offset");
    kani::cover!(matches!(d, QueuedRowGroupDecision::Read(_)) && has_limit && has_offset);
    std::mem::forget(d);
    std::mem::forget(fb);
}

//@ tier: quick
//@ timeout: 600
//@ functions: parquet::arrow::push_decoder::remaining::RowGroupFrontier::plan_selected_row_group
//@ bound: as c06_frontier_offset_counts_selected_rows with row predicates present: every row group with selected rows is handed to the reader (the predicate decides), whatever the budget
//@ stub: alloc::fmt::format -> empty String
#[kani::proof]
#[kani::unwind(4)]
#[kani::stub(alloc::fmt::format, stub_format)]
fn c06_frontier_predicates_force_read() {
    let off: Option<usize> = kani::any();
    let lim: Option<usize> = kani::any();
    let budget = RowBudget::new(off, lim);
    let row_count: usize = kani::any();
    let selected: usize = kani::any();
    kani::assume(selected >= 1 && selected <= row_count);
    let fb = FrontierBox::new(budget, true);
    let f = fb.get();
    let next = NextRowGroup { row_group_idx: 0, row_count, selection: None, budget };
    let d = f.plan_selected_row_group(next, selected);
    assert!(matches!(d, QueuedRowGroupDecision::Read(_)), "with predicates the row group is always read");
    kani::cover!(off == Some(7) && lim == Some(0));
    std::mem::forget(d);
    std::mem::forget(fb);
}
