//@ property: C06
//@ crate: parquet
//@ target: parquet/src/arrow/arrow_reader/selection/boolean.rs
// Child module of selection/boolean.rs: bitmask-backed row selections.
use super::*;

fn denote(s: &[RowSelector]) -> (u32, usize) {
    let mut mask = 0u32;
    let mut pos = 0usize;
    let mut i = 0;
    while i < s.len() {
        let mut j = 0;
        while j < s[i].row_count {
            if !s[i].skip {
                mask |= 1 << pos;
            }
            pos += 1;
            j += 1;
        }
        i += 1;
    }
    (mask, pos)
}

//@ tier: thorough
//@ timeout: 3000
//@ functions: parquet::arrow::arrow_reader::selection::boolean::{boolean_mask_from_selectors, set_bit_run}
//@ bound: <= 2 selectors with row_count <= 9 (runs cross byte boundaries): bit p of the produced mask is set iff position p is selected; length = total rows; unwind 12
#[kani::proof]
#[kani::unwind(12)]
fn c06_mask_from_selectors_denotation() {
    let n: usize = kani::any();
    kani::assume(n <= 2);
    let mut v = Vec::with_capacity(4);
    let mut i = 0;
    while i < 2 {
        if i < n {
            let rc: usize = kani::any();
            kani::assume(rc <= 9);
            v.push(RowSelector { row_count: rc, skip: kani::any() });
        }
        i += 1;
    }
    let (m, total) = denote(&v);
    let mask = boolean_mask_from_selectors(&v);
    assert!(mask.len() == total, "mask length = total rows");
    let p: usize = kani::any();
    if p < total {
        assert!(mask.value(p) == ((m >> p) & 1 == 1), "bit p set iff row p selected");
    }
    kani::cover!(total > 16 && m != 0, "three bytes");
    kani::cover!(n == 2 && v[1].row_count == 9 && !v[1].skip && v[0].row_count == 7, "run spanning a whole byte");
    std::mem::forget(mask);
    std::mem::forget(v);
}

//@ tier: quick
//@ functions: parquet::arrow::arrow_reader::selection::boolean::set_bit_run
//@ bound: 4-byte zeroed bitmap, every (start, len) inside it: exactly bits [start, start+len) are set; unwind 6
#[kani::proof]
#[kani::unwind(6)]
fn c06_set_bit_run_exact() {
    let start: usize = kani::any();
    let len: usize = kani::any();
    kani::assume(start <= 32 && len <= 32 - start);
    let mut buf = [0u8; 4];
    set_bit_run(&mut buf, start, len);
    let p: usize = kani::any();
    kani::assume(p < 32);
    let bit = (buf[p / 8] >> (p % 8)) & 1 == 1;
    assert!(bit == (p >= start && p < start + len), "exactly the run is set");
    kani::cover!(start % 8 != 0 && len > 16);
    kani::cover!(len == 0);
    kani::cover!(start % 8 != 0 && (start + len) % 8 != 0 && start / 8 == (start + len - 1) / 8 && len > 1, "inside one byte");
}

//@ tier: thorough
//@ timeout: 3000
//@ functions: parquet::arrow::arrow_reader::selection::boolean::{mask_to_selectors, MaskRunIter::next}, BooleanBuffer::set_slices
//@ bound: arbitrary 10-bit mask at bit offset 0..=5 in a 2-byte buffer: the produced selectors denote exactly the mask, alternate strictly and have no empty selector; the streaming MaskRunIter yields the same first two selectors; unwind 14
#[kani::proof]
#[kani::unwind(14)]
fn c06_mask_to_selectors_denotation() {
    let raw: [u8; 2] = kani::any();
    let off: usize = kani::any();
    let len: usize = kani::any();
    kani::assume(off <= 5 && len <= 10);
    let mask = BooleanBuffer::new(Buffer::from_vec(raw.to_vec()), off, len);
    let sel = mask_to_selectors(&mask);
    let (m, total) = denote(&sel);
    assert!(total == len, "selectors cover every row");
    let p: usize = kani::any();
    if p < len {
        assert!(((m >> p) & 1 == 1) == mask.value(p), "row p selected iff bit p set");
    }
    let k: usize = kani::any();
    if k < sel.len() {
        assert!(sel[k].row_count > 0, "no empty selector");
        if k + 1 < sel.len() {
            assert!(sel[k].skip != sel[k + 1].skip, "selectors alternate");
        }
    }
    let mut it = MaskRunIter::new(&mask);
    let a = it.next();
    let b = it.next();
    assert!(a == sel.first().copied() && b == sel.get(1).copied(), "streaming iterator agrees");
    kani::cover!(sel.len() >= 4);
    kani::cover!(sel.len() == 1 && len > 8 && !sel[0].skip);
    std::mem::forget(sel);
    std::mem::forget(mask);
}

//@ tier: thorough
//@ timeout: 3000
//@ functions: parquet::arrow::arrow_reader::selection::boolean::{limit_mask, trim_mask, last_set_bit_position, split_off_mask}, BooleanBuffer::{find_nth_set_bit_position, slice}
//@ bound: arbitrary 10-bit mask at bit offset 0..=5: limit_mask keeps exactly the first `limit` set rows (as a prefix); trim_mask removes exactly the trailing unset rows; split_off_mask partitions; unwind 14
#[kani::proof]
#[kani::unwind(14)]
fn c06_mask_limit_trim_split() {
    let raw: [u8; 2] = kani::any();
    let off: usize = kani::any();
    let len: usize = kani::any();
    kani::assume(off <= 5 && len <= 10);
    let mask = BooleanBuffer::new(Buffer::from_vec(raw.to_vec()), off, len);
    let p: usize = kani::any();
    kani::assume(p < 10);
    // rank of p = number of set rows strictly before p
    let mut rank = 0usize;
    let mut last_set: Option<usize> = None;
    let mut q = 0;
    while q < 10 {
        if q < len && mask.value(q) {
            if q < p {
                rank += 1;
            }
            last_set = Some(q);
        }
        q += 1;
    }
    let limit: usize = kani::any();
    kani::assume(limit <= 13);
    let lim = limit_mask(mask.clone(), limit);
    assert!(lim.len() <= len, "limit result is a prefix");
    if p < len && mask.value(p) {
        assert!((p < lim.len()) == (rank < limit), "set row p kept iff it is among the first `limit`");
    }
    if p < lim.len() {
        assert!(lim.value(p) == mask.value(p), "prefix bits unchanged");
    }
    match trim_mask(&mask) {
        None => assert!(len == 0 || mask.value(len - 1), "nothing to trim only if the last row is set"),
        Some(t) => {
            assert!(t.len() == last_set.map_or(0, |x| x + 1), "trimmed to one past the last set row");
            if p < t.len() {
                assert!(t.value(p) == mask.value(p));
            }
            std::mem::forget(t);
        }
    }
    let at: usize = kani::any();
    kani::assume(at <= 13);
    let (h, t) = split_off_mask(mask.clone(), at);
    assert!(h.len() == at.min(len) && h.len() + t.len() == len, "split partitions the rows");
    if p < len {
        let v = if p < h.len() { h.value(p) } else { t.value(p - h.len()) };
        assert!(v == mask.value(p), "split preserves every bit");
    }
    kani::cover!(limit == 2 && lim.len() < len && lim.len() > 2);
    kani::cover!(trim_mask(&mask).is_some() && last_set.is_some());
    std::mem::forget(lim);
    std::mem::forget(h);
    std::mem::forget(t);
    std::mem::forget(mask);
}
