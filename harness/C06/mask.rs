//@ property: C06
//@ crate: parquet
//@ target: parquet/src/arrow/arrow_reader/selection/boolean.rs
// Child module of selection/boolean.rs: bitmask-backed row selections.
use super::*;

fn denote(s: &[RowSelector]) -> (u32, usize) {
    let mut mask = 0u32;
    let mut pos = 0usize;
    let mut i = 0;
    while i < s.len() {
        let mut j = 0;
        while j < s[i].row_count {
            if !s[i].skip {
                mask |= 1 << pos;
            }
            pos += 1;
            j += 1;
        }
        i += 1;
    }
    (mask, pos)
}

//@ tier: quick
//@ timeout: 600
//@ functions: parquet::arrow::arrow_reader::selection::boolean::{boolean_mask_from_selectors, set_bit_run}
//@ bound: two selectors of 7 and 9 rows (the second run crosses a byte boundary) with arbitrary skip/select flags: bit p of the produced mask is set iff position p is selected; length = total rows; unwind 12
#[kani::proof]
#[kani::unwind(12)]
fn c06_mask_from_selectors_denotation() {
    // concrete run lengths (they size the mask buffer), arbitrary skip / select flags
    let n: usize = 2;
    let mut v = Vec::with_capacity(4);
    v.push(RowSelector { row_count: 7, skip: kani::any() });
    v.push(RowSelector { row_count: 9, skip: kani::any() });
    let (m, total) = denote(&v);
    let mask = boolean_mask_from_selectors(&v);
    assert!(mask.len() == total, "mask length = total rows");
    let p: usize = kani::any();
    if p < total {
        assert!(mask.value(p) == ((m >> p) & 1 == 1), "bit p set iff row p selected");
    }
    kani::cover!(total == 16 && m != 0, "two bytes");
    kani::cover!(n == 2 && v[1].row_count == 9 && !v[1].skip && v[0].row_count == 7, "run spanning a whole byte");
    std::mem::forget(mask);
    std::mem::forget(v);
}

//@ tier: quick
//@ functions: parquet::arrow::arrow_reader::selection::boolean::set_bit_run
//@ bound: 4-byte zeroed bitmap, every (start, len) inside it: exactly bits [start, start+len) are set; unwind 6
#[kani::proof]
#[kani::unwind(6)]
fn c06_set_bit_run_exact() {
    let start: usize = kani::any();
    let len: usize = kani::any();
    kani::assume(start <= 32 && len <= 32 - start);
    let mut buf = [0u8; 4];
    set_bit_run(&mut buf, start, len);
    let p: usize = kani::any();
    kani::assume(p < 32);
    let bit = (buf[p / 8] >> (p % 8)) & 1 == 1;
    assert!(bit == (p >= start && p < start + len), "exactly the run is set");
    kani::cover!(start % 8 != 0 && len > 16);
    kani::cover!(len == 0);
    kani::cover!(start % 8 != 0 && (start + len) % 8 != 0 && start / 8 == (start + len - 1) / 8 && len > 1, "inside one byte");
}


