#!/bin/bash
# usage: engine/dbg.sh <prop> <crate> <harness> [seconds] [extra cargo args...]
# Debug aid: runs one harness in the existing overlay of <prop> with CBMC verbosity 9 and summarises where symex spends its unwinding.
P=$1; C=$2; H=$3; T=${4:-240}; shift 4 2>/dev/null
W=${VERIF_WORK:-/var/tmp/verif-work}
cd $W/$P/ov || exit 3
L=/var/tmp/vw/dbg-$H.log
CARGO_NET_OFFLINE=true timeout $((T+120)) cargo kani -p $C --lib "$@" -Z stubbing -Z unstable-options --harness-timeout ${T}s --target-dir $W/$P/t-$C --harness $H --output-format old --cbmc-args --verbosity 9 > $L 2>&1
echo "== loops"; grep "Unwinding loop" $L | sed 's/iteration [0-9]*//' | grep -o "function .*" | sort | uniq -c | sort -rn | head -15 | cut -c1-220
echo "== recursion"; grep "Unwinding recursion" $L | sed 's/iteration [0-9]*//' | sort | uniq -c | sort -rn | head -12 | cut -c1-220
echo "== aborts"; grep "aborting path" $L | grep -o "function .*" | sort | uniq -c | sort -rn | head -8 | cut -c1-200
echo "== stages"; grep -n "Runtime Symex\|VCC\|variables,\|SATISFIABLE" $L | head -8
echo "log: $L"
