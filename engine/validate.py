#!/opt/veriftools/pyvenv/bin/python
import json, sys, glob, jsonschema
jsonschema.validate(json.load(open('/verif/MANIFEST.json')), json.load(open('/root/.vp/MANIFEST.schema.json')))
print('manifest valid')
s=json.load(open('/root/.vp/EVIDENCE.schema.json'))
for f in sorted(glob.glob('/verif/evidence/*.json')):
    jsonschema.validate(json.load(open(f)), s); print('evidence valid', f)
