#!/bin/bash
# usage: engine/try_seed_copy.sh <seeded-name> <check args...>
# Like try_seed.sh but leaves /repo untouched: the patch is applied to a scratch copy of /repo's working tree
# (VERIF_REPO) with its own work dir. Used while other checks are running against /repo.
set -u
N=$1; shift
C=/var/tmp/verif-mut/$N
mkdir -p $C/repo
rsync -a --delete --exclude /target --exclude .git /repo/ $C/repo/
( cd $C/repo && patch -p1 -s < /verif/seeded/$N/patch.diff ) || { echo "patch does not apply"; exit 3; }
cd /verif
VERIF_REPO=$C/repo VERIF_WORK=$C/work ./check "$@" --no-evidence
rc=$?
echo "try_seed_copy $N: check exit=$rc"
exit $rc
