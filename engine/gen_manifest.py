#!/usr/bin/env python3
"""Regenerates /verif/MANIFEST.json from engine/props.json and the harness directories.
A property is claimed iff props.json gives it a level text AND /verif/harness/<id>/ (or smt/<id>/) exists."""
import json
import os

VERIF = os.path.dirname(os.path.dirname(os.path.abspath(__file__)))
base = json.load(open("/root/.vp/BASELINE.json"))
props = json.load(open(os.path.join(VERIF, "engine", "props.json")))
ids = [json.loads(l)["id"] for l in open(os.path.join(VERIF, "properties.jsonl"))]

checks = []
na = []
served_k, served_m = [], []
for pid in ids:
    p = props.get(pid, {})
    has_k = os.path.isdir(os.path.join(VERIF, "harness", pid))
    has_m = os.path.isdir(os.path.join(VERIF, "smt", pid))
    if p.get("not_applicable") or not (has_k or has_m) or not p.get("text") or not p.get("ready"):
        na.append({"property_id": pid, "reason": p.get("not_applicable") or "the solver-based check for this property is still being brought up (its obligations are not all decided on the unchanged tree yet); it is not claimed in this revision"})
        continue
    if has_k:
        served_k.append(pid)
    if has_m:
        served_m.append(pid)
    checks.append({
        "property_id": pid,
        "quick_cmd": f"./check {pid} --tier quick",
        "thorough_cmd": f"./check {pid} --tier thorough",
        "evidence_file": f"/verif/evidence/{pid}.json",
        "replay_cmd_template": f"./check {pid} --replay {{path}}",
        "engine": "K+M" if (has_k and has_m) else ("M" if has_m else "K"),
        "level_claimed": {"category": "model_checking", "text": p["text"], "design_ref": p.get("design_ref", f"DESIGN.md §5 {pid}")},
        "level_note": p["note"],
        "technique": p.get("technique", "bounded model checking of the real compiled Rust functions with Kani 0.68 / CBMC 6.11 (SAT: CaDiCaL): symbolic inputs, lengths, offsets and split points; counterexamples replayed natively"),
    })

m = {
    "version": 1,
    "setup_cmd": "./setup.sh",
    "hooks": {
        "guard": "none in /repo: harnesses are #[cfg(kani)] child modules appended to a scratch overlay copy of /repo's working tree (DESIGN.md §2.1); /repo itself carries no hook, only fix: commits",
        "enable": "./check <id> rsyncs /repo's working tree to $VERIF_WORK/<id>/ov (default /var/tmp/verif-work), appends `#[cfg(kani)] #[path=\"/verif/harness/<id>/<file>.rs\"] mod ...;` lines to the copy and runs `cargo kani -p <crate> --lib -Z stubbing` there",
        "baseline_off_cmd": base["cmd"],
        "source_commits": props.get("_fix_commits", []),
        "add_only": True,
    },
    "engines": [
        {"name": "K", "path": "engine/driver.py", "serves_properties": served_k,
         "kind_free_text": "Kani 0.68 / CBMC 6.11 bounded model checking of the real compiled functions; harnesses are child modules injected into an overlay copy of /repo, so private functions are reached without touching /repo"},
        {"name": "M", "path": "engine/mir2smt.py", "serves_properties": served_m,
         "kind_free_text": "MIR (rustc -Zunpretty=mir of the overlay) -> SMT-LIB2 bit-vector encoding of loop-free integer kernels, decided by z3 and cvc5 (both must agree), translator validated against the native function on concrete inputs"},
    ],
    "checks": checks,
    "not_applicable": na,
    "notes": "See DESIGN.md. Exit 0 = every obligation holds inside its stated bound (or only known findings); 1 = reproduced counterexample (VIOLATION line); 2 = inconclusive (timeout, memory cap, harness no longer compiles, vacuous harness, non-reproducing counterexample) - never reported as success.",
}
json.dump(m, open(os.path.join(VERIF, "MANIFEST.json"), "w"), indent=1)
print(f"claimed: {[c['property_id'] for c in checks]}")
print(f"not applicable: {[n['property_id'] for n in na]}")
