#!/bin/bash
# Runs the repository's baseline test suite (guard off: /repo carries no hooks) and compares the set of passing
# tests with BASELINE.json's stable_pass list. Usage: engine/baseline.sh [outdir]
set -u
OUT=${1:-/var/tmp/verif-work/baseline}
mkdir -p "$OUT"
cd /repo
nice -n 10 cargo nextest run --workspace --no-fail-fast --tool-config-file pb:/w/lib/nextest.toml --profile pb --test-threads 8 --offline > "$OUT/nextest.log" 2>&1
J=$(find /repo/target/nextest/pb -name junit.xml | head -1)
cp "$J" "$OUT/junit.xml" 2>/dev/null
python3 - "$OUT/junit.xml" <<'P'
import json, sys, xml.etree.ElementTree as ET
b = json.load(open('/root/.vp/BASELINE.json'))
sp = set(b['stable_pass'])
t = ET.parse(sys.argv[1])
passed = set()
for ts in t.getroot().iter('testsuite'):
    suite = ts.get('name')
    for tc in ts.iter('testcase'):
        ok = not any(c.tag in ('failure', 'error') for c in tc)
        name = f"{suite}::{tc.get('name')}"
        if ok:
            passed.add(name)
missing = sorted(sp - passed)
print(f"stable_pass={len(sp)} passed_now={len(passed)} stable_pass_not_passing_now={len(missing)}")
for m in missing[:40]:
    print("  MISSING", m)
P
