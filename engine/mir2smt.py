#!/usr/bin/env python3
"""Engine M: MIR -> SMT-LIB2 for loop-free integer kernels (DESIGN.md §2.2).

The MIR of the overlay copy of /repo is dumped with the nightly compiler
(`-Zunpretty=mir -C overflow-checks=on`), the functions named in /verif/smt/<prop>/*.json are
executed symbolically (bit-vectors; acyclic CFG; calls to other dumped functions are inlined; a small
table of std integer intrinsics), every MIR `assert` terminator becomes a proof obligation, and the
property of the spec file is asserted over the resulting terms.  z3 and cvc5 must both answer `unsat`.

64x64->128 multiplications are abstracted by the uninterpreted function `mul64` constrained only by
facts that are true of multiplication (range, zero, one-sidedness); the reference side of each property is
stated over the same products, so a proof under the abstraction is a proof for real multiplication.

Anything the translator does not know (a loop, a memory reference it cannot resolve, an unknown call)
raises Unsupported and the obligation is reported inconclusive - never as success.
"""
import json
import os
import re
import subprocess
import sys
import time

WIDTH = {'u8': 8, 'u16': 16, 'u32': 32, 'u64': 64, 'u128': 128, 'usize': 64,
         'i8': 8, 'i16': 16, 'i32': 32, 'i64': 64, 'i128': 128, 'isize': 64, 'bool': 1}


class Unsupported(Exception):
    pass


def is_signed(ty):
    return ty.startswith('i') and ty in WIDTH


def bvconst(v, w):
    return f'(_ bv{v % (1 << w)} {w})'


class Val:
    """scalar: kind='bv' (term,ty) | 'bool' (term); aggregate: kind='agg' fields dict; option: kind='opt' (disc term bool, some Val)"""
    def __init__(self, kind, term=None, ty=None, fields=None, some=None):
        self.kind, self.term, self.ty, self.fields, self.some = kind, term, ty, fields, some

    @staticmethod
    def bv(term, ty):
        return Val('bv', term, ty)

    @staticmethod
    def boolean(term):
        return Val('bool', term, 'bool')


def parse_functions(text):
    fns = {}
    for m in re.finditer(r'^fn ([^\n]+?)\((.*?)\) -> (.+?) \{\n(.*?)^\}', text, re.S | re.M):
        name, args, ret, body = m.group(1).strip(), m.group(2), m.group(3), m.group(4)
        if name in fns:
            continue  # the second copy is the CTFE MIR of const fns
        fns[name] = (args, ret, body)
    return fns


class Translator:
    def __init__(self, fns, log=None):
        self.fns = fns
        self.defs = []       # define-fun lines
        self.obligations = []  # (path condition term, condition term, description)
        self.n = 0
        self.mul_sites = []  # (a64, b64) argument pairs of mul64 applications
        self.encoded = set()
        self.inherent = None
        for name in fns:
            if name.endswith('>::from_parts') and 'bigint' in name:
                self.inherent = name[: -len('from_parts')]

    # ---------------- helpers
    def define(self, expr, sort):
        self.n += 1
        name = f't{self.n}'
        self.defs.append(f'(define-fun {name} () {sort} {expr})')
        return name

    def dbv(self, expr, ty):
        return Val.bv(self.define(expr, f'(_ BitVec {WIDTH[ty]})'), ty)

    def dbool(self, expr):
        return Val.boolean(self.define(expr, 'Bool'))

    def resolve(self, callee):
        if callee in self.fns:
            return callee
        if callee.startswith('i256::') and self.inherent and (self.inherent + callee[6:]) in self.fns:
            return self.inherent + callee[6:]
        cands = [n for n in self.fns if n.endswith('::' + callee) or n == callee]
        if len(cands) == 1:
            return cands[0]
        return None

    # ---------------- operands / places
    def const(self, c):
        m = re.match(r'^(-?\d+)_([iu]\d+|usize|isize)$', c)
        if m:
            return Val.bv(bvconst(int(m.group(1)), WIDTH[m.group(2)]), m.group(2))
        if c in ('true', 'false'):
            return Val.boolean(c)
        if c.endswith('i256::ZERO'):
            return Val('agg', fields={0: Val.bv(bvconst(0, 128), 'u128'), 1: Val.bv(bvconst(0, 128), 'i128')})
        if c.endswith('mulx::MASK'):
            return Val.bv(bvconst(2 ** 64 - 1, 128), 'u128')
        if c.endswith('<impl u64>::MAX'):
            return Val.bv(bvconst(2 ** 64 - 1, 64), 'u64')
        raise Unsupported('const ' + c)

    def place(self, s, env):
        s = s.strip()
        m = re.match(r'^\(\((.+) as Some\)\.0: ([A-Za-z0-9_:]+)\)$', s)
        if m:
            base = self.place(m.group(1), env)
            if base.kind != 'opt':
                raise Unsupported('downcast of non-option ' + s)
            return base.some
        m = re.match(r'^\((.+)\.(\d+): ([^)]+)\)$', s)
        if m:
            base = self.place(m.group(1), env)
            if base.kind != 'agg':
                raise Unsupported('field of non-aggregate ' + s)
            return base.fields[int(m.group(2))]
        m = re.match(r'^\(\*(_\d+)\)$', s)
        if m:
            v = env[m.group(1)]
            return v  # references are modelled by value (shared, immutable borrows only)
        if re.match(r'^_\d+$', s):
            if s not in env:
                raise Unsupported('use of unassigned local ' + s)
            return env[s]
        raise Unsupported('place ' + s)

    def operand(self, s, env):
        s = s.strip()
        s = re.sub(r'^(copy|move) ', '', s)
        m = re.match(r'^const (.+)$', s)
        if m:
            return self.const(m.group(1).strip())
        return self.place(s, env)

    # ---------------- rvalues
    def cast(self, v, ty):
        if v.kind == 'bool':
            w = WIDTH[ty]
            return self.dbv(f'(ite {v.term} {bvconst(1, w)} {bvconst(0, w)})', ty)
        wa, w = WIDTH[v.ty], WIDTH[ty]
        if w > wa:
            ext = 'sign_extend' if is_signed(v.ty) else 'zero_extend'
            return self.dbv(f'((_ {ext} {w - wa}) {v.term})', ty)
        if w < wa:
            return self.dbv(f'((_ extract {w - 1} 0) {v.term})', ty)
        return Val.bv(v.term, ty)

    def binop(self, op, a, b):
        if op in ('Eq', 'Ne') and a.kind == 'bool':
            t = f'(= {a.term} {b.term})'
            return self.dbool(t if op == 'Eq' else f'(not {t})')
        if op == 'BitXor' and a.kind == 'bool':
            return self.dbool(f'(xor {a.term} {b.term})')
        ty = a.ty
        w = WIDTH[ty]
        sg = is_signed(ty)
        if op in ('BitAnd', 'BitOr', 'BitXor', 'Add', 'Sub'):
            f = {'BitAnd': 'bvand', 'BitOr': 'bvor', 'BitXor': 'bvxor', 'Add': 'bvadd', 'Sub': 'bvsub'}[op]
            return self.dbv(f'({f} {a.term} {b.term})', ty)
        if op in ('Shl', 'Shr'):
            bt = b.term
            wb = WIDTH[b.ty]
            if wb < w:
                bt = f'((_ zero_extend {w - wb}) {bt})'
            elif wb > w:
                bt = f'((_ extract {w - 1} 0) {bt})'
            f = 'bvshl' if op == 'Shl' else ('bvashr' if sg else 'bvlshr')
            return self.dbv(f'({f} {a.term} {bt})', ty)
        if op in ('Lt', 'Le', 'Gt', 'Ge'):
            f = {'Lt': 'lt', 'Le': 'le', 'Gt': 'gt', 'Ge': 'ge'}[op]
            return self.dbool(f'(bv{"s" if sg else "u"}{f} {a.term} {b.term})')
        if op == 'Eq':
            return self.dbool(f'(= {a.term} {b.term})')
        if op == 'Ne':
            return self.dbool(f'(not (= {a.term} {b.term}))')
        if op == 'AddWithOverflow' and not sg:
            r = self.dbv(f'(bvadd {a.term} {b.term})', ty)
            o = self.dbool(f'(bvult {r.term} {a.term})')
            return Val('agg', fields={0: r, 1: o})
        if op == 'SubWithOverflow' and not sg:
            r = self.dbv(f'(bvsub {a.term} {b.term})', ty)
            o = self.dbool(f'(bvult {a.term} {b.term})')
            return Val('agg', fields={0: r, 1: o})
        if op == 'MulWithOverflow' and ty == 'u128':
            small = f'(and (= ((_ extract 127 64) {a.term}) (_ bv0 64)) (= ((_ extract 127 64) {b.term}) (_ bv0 64)))'
            la, lb = f'((_ extract 63 0) {a.term})', f'((_ extract 63 0) {b.term})'
            self.mul_sites.append((la, lb))
            p = self.dbv(f'(ite {small} (mul64 {la} {lb}) (bvmul {a.term} {b.term}))', ty)
            o = self.dbool(f'(not {small})')  # conservative: overflow unless both operands are below 2^64
            return Val('agg', fields={0: p, 1: o})
        raise Unsupported(f'binop {op} on {ty}')

    def mul128full(self, a, b):
        """256-bit product of two u128 terms as the schoolbook sum over mul64 (a define-fun in the prelude)."""
        for x in (a, b):
            pass
        self.mul_sites.append((f'((_ extract 63 0) {a})', f'((_ extract 63 0) {b})'))
        self.mul_sites.append((f'((_ extract 127 64) {a})', f'((_ extract 63 0) {b})'))
        self.mul_sites.append((f'((_ extract 63 0) {a})', f'((_ extract 127 64) {b})'))
        self.mul_sites.append((f'((_ extract 127 64) {a})', f'((_ extract 127 64) {b})'))
        return self.define(f'(mul128full {a} {b})', '(_ BitVec 256)')

    def intrinsic(self, callee, args):
        m = re.match(r'^core::num::<impl ([iu]\d+|usize|isize)>::(\w+)$', callee)
        if not m:
            return None
        ty, f = m.group(1), m.group(2)
        w = WIDTH[ty]
        a = args[0]
        b = args[1] if len(args) > 1 else None
        if f == 'wrapping_add':
            return self.dbv(f'(bvadd {a.term} {b.term})', ty)
        if f == 'wrapping_sub':
            return self.dbv(f'(bvsub {a.term} {b.term})', ty)
        if f == 'wrapping_mul' and w == 128:
            # low 128 bits of the product: (a*b) mod 2^128 does not depend on signedness
            full = self.mul128full(a.term, b.term)
            return self.dbv(f'((_ extract 127 0) {full})', ty)
        if f == 'overflowing_sub' and not is_signed(ty):
            r = self.dbv(f'(bvsub {a.term} {b.term})', ty)
            return Val('agg', fields={0: r, 1: self.dbool(f'(bvult {a.term} {b.term})')})
        if f == 'overflowing_add' and not is_signed(ty):
            r = self.dbv(f'(bvadd {a.term} {b.term})', ty)
            return Val('agg', fields={0: r, 1: self.dbool(f'(bvult {r.term} {a.term})')})
        if f == 'checked_add' and not is_signed(ty):
            r = self.dbv(f'(bvadd {a.term} {b.term})', ty)
            return Val('opt', term=self.dbool(f'(not (bvult {r.term} {a.term}))').term, some=r)
        if f == 'checked_mul' and ty == 'u128':
            full = self.mul128full(a.term, b.term)
            fits = self.dbool(f'(= ((_ extract 255 128) {full}) (_ bv0 128))')
            return Val('opt', term=fits.term, some=self.dbv(f'((_ extract 127 0) {full})', ty))
        if f == 'is_negative':
            return self.dbool(f'(bvslt {a.term} {bvconst(0, w)})')
        raise Unsupported('intrinsic ' + callee)

    # ---------------- execution
    def merge(self, cond, a, b):
        """ite(cond, a, b) on values"""
        if a is None:
            return b
        if b is None:
            return a
        if a.kind == 'bool':
            return self.dbool(f'(ite {cond} {a.term} {b.term})')
        if a.kind == 'bv':
            return self.dbv(f'(ite {cond} {a.term} {b.term})', a.ty)
        if a.kind == 'agg':
            return Val('agg', fields={k: self.merge(cond, a.fields[k], b.fields[k]) for k in a.fields})
        if a.kind == 'opt':
            d = self.dbool(f'(ite {cond} {a.term} {b.term})').term
            sa, sb = a.some, b.some
            if sa is None:
                s = sb
            elif sb is None:
                s = sa
            else:
                s = self.merge(cond, sa, sb)
            return Val('opt', term=d, some=s)
        raise Unsupported('merge')

    def call(self, fname, args, pc, depth=0):
        if depth > 12:
            raise Unsupported('call depth')
        self.encoded.add(fname)
        argdecl, ret, body = self.fns[fname]
        params = [a.strip() for a in argdecl.split(', _') if a.strip()]
        env = {}
        for i, p in enumerate(params):
            loc = p.split(':')[0].strip()
            if not loc.startswith('_'):
                loc = '_' + loc
            env[loc] = args[i]
        blocks = dict((m.group(1), m.group(2)) for m in re.finditer(r'^    (bb\d+): \{\n(.*?)^    \}', body, re.S | re.M))
        leaves = []
        self.run('bb0', env, pc, blocks, leaves, depth, set())
        # merge leaves: later leaves nested in ite on their path conditions
        result = None
        for cond, val in reversed(leaves):
            result = val if result is None else self.merge(cond, val, result)
        return result

    def conj(self, pc):
        if not pc:
            return 'true'
        if len(pc) == 1:
            return pc[0]
        return '(and ' + ' '.join(pc) + ')'

    def run(self, cur, env, pc, blocks, leaves, depth, seen):
        while True:
            if cur in seen:
                raise Unsupported('loop in CFG at ' + cur)
            seen = seen | {cur}
            lines = [l.strip() for l in blocks[cur].strip().split('\n') if l.strip()]
            nxt = None
            for line in lines:
                if line.startswith('StorageLive') or line.startswith('StorageDead') or line.startswith('//') or line == 'nop;':
                    continue
                if line == 'return;':
                    leaves.append((self.conj(pc), env.get('_0')))
                    return
                if line == 'unreachable;':
                    return
                m = re.match(r'^goto -> (bb\d+);$', line)
                if m:
                    nxt = m.group(1)
                    break
                m = re.match(r'^switchInt\((.+)\) -> \[(.+)\];$', line)
                if m:
                    v = self.operand(m.group(1), env)
                    targets = [t.strip() for t in m.group(2).split(',')]
                    taken = []
                    for t in targets:
                        k, bb = [x.strip() for x in t.split(':')]
                        if k == 'otherwise':
                            cond = '(and ' + ' '.join(f'(not {c})' for c in taken) + ')' if len(taken) > 1 else f'(not {taken[0]})'
                        else:
                            if v.kind == 'bool':
                                cond = v.term if k != '0' else f'(not {v.term})'
                            else:
                                cond = f'(= {v.term} {bvconst(int(k), WIDTH[v.ty])})'
                            taken.append(cond)
                        self.run(bb, dict(env), pc + [cond], blocks, leaves, depth, seen)
                    return
                m = re.match(r'^assert\((!?)(.+?), "(.*?)".*\) -> \[success: (bb\d+), unwind continue\];$', line)
                if m:
                    v = self.operand(m.group(2), env)
                    cond = f'(not {v.term})' if m.group(1) else v.term
                    self.obligations.append((self.conj(pc), cond, m.group(3)[:60]))
                    pc = pc + [cond]
                    nxt = m.group(4)
                    break
                m = re.match(r'^(_\d+) = (.+?)\((.*)\) -> \[return: (bb\d+), unwind continue\];$', line)
                if m and not re.match(r'^(Add|Sub|Mul|BitAnd|BitOr|BitXor|Shl|Shr|Lt|Le|Gt|Ge|Eq|Ne|AddWithOverflow|SubWithOverflow|MulWithOverflow)$', m.group(2)):
                    dst, callee, argstr, bb = m.groups()
                    args = [self.operand(a, env) for a in self.split_args(argstr)]
                    r = self.intrinsic(callee, args)
                    if r is None:
                        target = self.resolve(callee)
                        if target is None:
                            raise Unsupported('call to ' + callee)
                        r = self.call(target, args, pc, depth + 1)
                    env[dst] = r
                    nxt = bb
                    break
                m = re.match(r'^(_\d+) = (.+);$', line)
                if m:
                    env[m.group(1)] = self.rvalue(m.group(2), env)
                    continue
                raise Unsupported('statement ' + line[:80])
            if nxt is None:
                raise Unsupported('fell off block ' + cur)
            cur = nxt

    @staticmethod
    def split_args(s):
        out, depth, cur = [], 0, ''
        for ch in s:
            if ch == '(':
                depth += 1
            elif ch == ')':
                depth -= 1
            if ch == ',' and depth == 0:
                out.append(cur)
                cur = ''
            else:
                cur += ch
        if cur.strip():
            out.append(cur)
        return out

    def rvalue(self, r, env):
        r = r.strip()
        m = re.match(r'^&(_\d+)$', r)
        if m:
            return env[m.group(1)]
        m = re.match(r'^discriminant\((.+)\)$', r)
        if m:
            v = self.place(m.group(1), env)
            if v.kind != 'opt':
                raise Unsupported('discriminant of non-option')
            return self.dbv(f'(ite {v.term} (_ bv1 64) (_ bv0 64))', 'isize')
        m = re.match(r'^Option::<.+?>::Some\((.+)\)$', r)
        if m:
            return Val('opt', term='true', some=self.operand(m.group(1), env))
        if re.match(r'^Option::<.+?>::None$', r):
            return Val('opt', term='false', some=None)
        m = re.match(r'^i256 \{ low: (.+), high: (.+) \}$', r)
        if m:
            return Val('agg', fields={0: self.operand(m.group(1), env), 1: self.operand(m.group(2), env)})
        m = re.match(r'^(\w+)\((.+)\)$', r)
        if m and m.group(1) in ('Add', 'Sub', 'Mul', 'BitAnd', 'BitOr', 'BitXor', 'Shl', 'Shr', 'Lt', 'Le', 'Gt', 'Ge', 'Eq', 'Ne',
                                'AddWithOverflow', 'SubWithOverflow', 'MulWithOverflow'):
            a, b = self.split_args(m.group(2))
            return self.binop(m.group(1), self.operand(a, env), self.operand(b, env))
        m = re.match(r'^(.+) as ([a-z0-9]+) \(IntToInt\)$', r)
        if m:
            return self.cast(self.operand(m.group(1), env), m.group(2))
        m = re.match(r'^\((.+)\)$', r)
        if m and ',' in r and not r.startswith('(_') and not r.startswith('((') and not r.startswith('(*'):
            parts = self.split_args(m.group(1))
            return Val('agg', fields={i: self.operand(p, env) for i, p in enumerate(parts)})
        if m and ',' in r:
            # tuple of operands such as (move _3, move _4)
            parts = self.split_args(m.group(1))
            if all(re.match(r'^\s*(copy|move|const) ', p) for p in parts):
                return Val('agg', fields={i: self.operand(p, env) for i, p in enumerate(parts)})
        m = re.match(r'^Not\((.+)\)$', r)
        if m:
            v = self.operand(m.group(1), env)
            if v.kind == 'bool':
                return self.dbool(f'(not {v.term})')
            return self.dbv(f'(bvnot {v.term})', v.ty)
        return self.operand(r, env)


PRELUDE = '''(set-logic ALL)
;; mul64 = uninterpreted 64x64->128 product, commutative by construction
(declare-fun mul64u ((_ BitVec 64) (_ BitVec 64)) (_ BitVec 128))
(define-fun mul64 ((x (_ BitVec 64)) (y (_ BitVec 64))) (_ BitVec 128) (ite (bvule x y) (mul64u x y) (mul64u y x)))
(define-fun z256 ((x (_ BitVec 128))) (_ BitVec 256) ((_ zero_extend 128) x))
(define-fun lo64 ((x (_ BitVec 128))) (_ BitVec 64) ((_ extract 63 0) x))
(define-fun hi64 ((x (_ BitVec 128))) (_ BitVec 64) ((_ extract 127 64) x))
; 128x128 -> 256 bit product as the schoolbook sum of the four 64x64 products
(define-fun mul128full ((a (_ BitVec 128)) (b (_ BitVec 128))) (_ BitVec 256)
  (bvadd (z256 (mul64 (lo64 a) (lo64 b)))
         (bvshl (bvadd (z256 (mul64 (hi64 a) (lo64 b))) (z256 (mul64 (lo64 a) (hi64 b)))) (_ bv64 256))
         (bvshl (z256 (mul64 (hi64 a) (hi64 b))) (_ bv128 256))))
'''

REAL_MUL64 = '(define-fun mul64u ((x (_ BitVec 64)) (y (_ BitVec 64))) (_ BitVec 128) (bvmul ((_ zero_extend 64) x) ((_ zero_extend 64) y)))'


def axioms(sites):
    out = []
    seen = set()
    for (x, y) in sites:
        if (x, y) in seen:
            continue
        seen.add((x, y))
        t = f'(mul64 {x} {y})'
        # facts true of 64x64 multiplication; nothing else is assumed about mul64
        out.append(f'(assert (bvule {t} #xfffffffffffffffe0000000000000001))')
        out.append(f'(assert (=> (or (= {x} (_ bv0 64)) (= {y} (_ bv0 64))) (= {t} (_ bv0 128))))')
        out.append(f'(assert (=> (and (not (= {x} (_ bv0 64))) (not (= {y} (_ bv0 64)))) (and (bvuge {t} ((_ zero_extend 64) {x})) (bvuge {t} ((_ zero_extend 64) {y})))))')
        out.append(f'(assert (=> (= {x} (_ bv1 64)) (= {t} ((_ zero_extend 64) {y}))))')
        out.append(f'(assert (=> (= {y} (_ bv1 64)) (= {t} ((_ zero_extend 64) {x}))))')
    return out


def run_solver(cmd, text, timeout):
    t0 = time.time()
    try:
        p = subprocess.run(cmd, input=text, capture_output=True, text=True, timeout=timeout)
        out = (p.stdout + p.stderr).strip()
    except subprocess.TimeoutExpired:
        return 'timeout', time.time() - t0, ''
    dt = time.time() - t0
    if '(error' in out:
        return 'error', dt, out[:300]
    first = out.splitlines()[0].strip() if out else ''
    if first in ('sat', 'unsat', 'unknown'):
        return first, dt, out
    return 'error', dt, out[:300]


def dump_mir(crate, work, repo, log):
    base = os.path.join(work, 'mir-' + crate)
    ov = os.path.join(base, 'ov')
    os.makedirs(ov, exist_ok=True)
    subprocess.run(['rsync', '-a', '--delete', '--exclude', '/target', '--exclude', '.git', repo + '/', ov + '/'], check=True)
    lib = os.path.join(ov, crate, 'src', 'lib.rs')
    os.utime(lib, None)  # force re-emission of the MIR
    env = dict(os.environ)
    env['CARGO_TARGET_DIR'] = os.path.join(base, 't')
    env['CARGO_NET_OFFLINE'] = 'true'
    out = os.path.join(base, crate + '.mir')
    t0 = time.time()
    with open(out, 'w') as f:
        p = subprocess.run(['cargo', '+nightly', 'rustc', '--offline', '-p', crate, '--lib', '--', '-Zunpretty=mir',
                            '-C', 'debug-assertions=off', '-C', 'overflow-checks=on'], cwd=ov, env=env, stdout=f, stderr=subprocess.PIPE, text=True)
    if p.returncode != 0 or os.path.getsize(out) == 0:
        raise Unsupported('MIR dump failed: ' + p.stderr[-400:])
    log(f'  [engine M] MIR of {crate} dumped in {time.time() - t0:.0f} s ({os.path.getsize(out) // 1024} KiB)')
    return out, ov, base


def native_eval(ov, base, crate, example_src, inputs, log):
    """Builds an example in the overlay that calls the real public API on the given inputs; returns its stdout lines."""
    exdir = os.path.join(ov, crate, 'examples')
    os.makedirs(exdir, exist_ok=True)
    with open(os.path.join(exdir, 'verif_eval.rs'), 'w') as f:
        f.write(example_src)
    env = dict(os.environ)
    env['CARGO_TARGET_DIR'] = os.path.join(base, 't-native')
    env['CARGO_NET_OFFLINE'] = 'true'
    p = subprocess.run(['cargo', 'run', '--offline', '-q', '-p', crate, '--example', 'verif_eval'], cwd=ov, env=env,
                       input='\n'.join(inputs) + '\n', capture_output=True, text=True)
    if p.returncode != 0:
        raise Unsupported('native evaluator failed: ' + p.stderr[-400:])
    return [l.strip() for l in p.stdout.splitlines() if l.strip()]


def run_property(prop, tier, work, repo, log, only=None):
    verif = os.path.dirname(os.path.dirname(os.path.abspath(__file__)))
    sdir = os.path.join(verif, 'smt', prop)
    sys.path.insert(0, sdir)
    results = []
    import importlib
    for fn in sorted(os.listdir(sdir)):
        if not fn.endswith('.py'):
            continue
        mod = importlib.import_module(fn[:-3])
        for r in mod.obligations(sys.modules[__name__], tier, work, repo, log, only):
            results.append(r)
    return results
