#!/bin/bash
# usage: engine/try_seed.sh <seeded-name> <check args...>
# Applies /verif/seeded/<name>/patch.diff to /repo, runs ./check with the given args (no evidence rewrite), reverts.
set -u
N=$1; shift
cd /repo || exit 3
if ! git diff --quiet; then echo "/repo working tree is dirty"; exit 3; fi
git apply /verif/seeded/$N/patch.diff || { echo "patch does not apply"; exit 3; }
cd /verif
./check "$@" --no-evidence
rc=$?
git -C /repo checkout -- .
git -C /repo status --short | grep -v '^??' | head -3
echo "try_seed $N: check exit=$rc"
exit $rc
