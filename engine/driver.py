#!/usr/bin/env python3
"""Driver for the solver-based checks of /verif (see DESIGN.md §2, §8).

  ./check <Cxx> [--tier quick|thorough] [--only <obligation-substring>] [--jobs N]
  ./check --list
  ./check --clean

Exit codes: 0 = every obligation holds (or only known findings),
            1 = reproduced violation (prints VIOLATION property=<id> replay=<path>),
            2 = inconclusive (timeout, memory, compile error, vacuous harness, ...).
"""
import argparse
import glob
import hashlib
import json
import os
import re
import shutil
import signal
import subprocess
import sys
import threading
import time

VERIF = os.path.dirname(os.path.dirname(os.path.abspath(__file__)))
REPO = os.environ.get("VERIF_REPO", "/repo")
WORK = os.environ.get("VERIF_WORK", "/var/tmp/verif-work")
HARNESS_DIR = os.path.join(VERIF, "harness")
EVIDENCE_DIR = os.path.join(VERIF, "evidence")
REPLAY_DIR = os.path.join(VERIF, "replays")
KNOWN = os.path.join(VERIF, "known_findings.json")

# cargo arguments per crate (no C code, no SIMD-only crates in the build)
CRATE_ARGS = {
    "parquet": ["--no-default-features", "--features", "arrow"],
    "arrow-avro": ["--no-default-features"],
    # default feature simdutf8 = SIMD intrinsics; without it string_from_slice uses core::str::from_utf8
    "parquet-variant": ["--no-default-features"],
}
# native replay builds the crate's TEST target; arrow-avro's test modules need its default features (flate2, ...)
REPLAY_CRATE_ARGS = {
    "arrow-avro": [],
}
MEM_CAP_GB = float(os.environ.get("VERIF_MEM_GB", "12"))
TOTAL_MEM_CAP_GB = float(os.environ.get("VERIF_TOTAL_MEM_GB", "48"))
DEFAULT_TIMEOUT = {"quick": 300, "thorough": 2400}


def log(msg):
    print(msg, flush=True)


# --------------------------------------------------------------------------
# obligations: parsed from the //@ annotations of the harness files
# --------------------------------------------------------------------------
class Obligation:
    def __init__(self):
        self.name = None          # harness fn name
        self.file = None          # harness file
        self.tier = "quick"
        self.functions = []
        self.bound = ""
        self.assumes = []
        self.stubs = []
        self.timeout = None
        self.expect_panics = False   # reachable panics in code under test are expected (reject-by-panic)
        self.unwind_is_violation = False  # a failed unwinding assertion is the property (termination bound)
        self.crate = None
        self.cargo_args = None
        self.finding = None       # id of a known finding this obligation exposes
        self.line = 0


class HarnessFile:
    def __init__(self, path):
        self.path = path
        self.property = None
        self.crate = None
        self.target = None
        self.cargo_args = None
        self.extra_inject = []   # (target file, literal line) additional lines appended to other files
        self.also = []           # other properties this harness file also serves
        self.obligations = []


ANN = re.compile(r"^\s*//@\s*([a-z_]+)\s*:\s*(.*?)\s*$")
FN = re.compile(r"^\s*(?:pub\s+)?fn\s+([A-Za-z0-9_]+|\$[a-z_]+)\s*\(")
MACRO_DEF = re.compile(r"^\s*macro_rules!\s*([A-Za-z0-9_]+)")
MACRO_USE = re.compile(r"^([A-Za-z0-9_]+)!\(\s*([A-Za-z0-9_]+)\s*(?:,(.*))?\);\s*$")


def make_ob(hf, path, ln, name, pending, inst=None):
    ob = Obligation()
    ob.name = name
    ob.file = path
    ob.line = ln
    ob.crate = hf.crate
    ob.hf = hf
    ob.tier = (pending.get("tier") or ["quick"])[-1]
    ob.functions = [x.strip() for v in pending.get("functions", []) for x in v.split(",") if x.strip()]
    ob.bound = " ".join(pending.get("bound", []))
    if inst:
        ob.bound += f" [instantiation: {inst.strip()}]"
    ob.assumes = pending.get("assume", [])
    ob.stubs = pending.get("stub", [])
    if pending.get("timeout"):
        ob.timeout = int(pending["timeout"][-1])
    ob.expect_panics = (pending.get("expect_panics") or ["no"])[-1] in ("yes", "true")
    ob.unwind_is_violation = (pending.get("unwind_is_violation") or ["no"])[-1] in ("yes", "true")
    ob.finding = (pending.get("finding") or [None])[-1]
    return ob


def parse_harness_file(path):
    hf = HarnessFile(path)
    pending = {}
    saw_proof = False
    cur_macro = None
    macros = {}
    with open(path) as f:
        lines = f.readlines()
    for ln, line in enumerate(lines, 1):
        m = ANN.match(line)
        if m:
            k, v = m.group(1), m.group(2)
            if k in ("property", "crate", "target", "cargo_args", "inject", "also"):
                if k == "property":
                    hf.property = v
                elif k == "also":
                    hf.also = [x.strip() for x in v.split(",") if x.strip()]
                elif k == "crate":
                    hf.crate = v
                elif k == "target":
                    hf.target = v
                elif k == "cargo_args":
                    hf.cargo_args = v.split()
                elif k == "inject":
                    tgt, _, text = v.partition(" :: ")
                    hf.extra_inject.append((tgt.strip(), text.strip()))
                continue
            pending.setdefault(k, []).append(v)
            continue
        m = MACRO_DEF.match(line)
        if m:
            cur_macro = m.group(1)
            continue
        if cur_macro and line.startswith("}"):
            cur_macro = None
            continue
        if "#[kani::proof" in line:
            saw_proof = True
            continue
        m = FN.match(line)
        if m and saw_proof:
            name = m.group(1)
            if name.startswith("$"):
                if not cur_macro:
                    raise SystemExit(f"{path}:{ln}: macro-style harness outside macro_rules!")
                macros[cur_macro] = dict(pending)
            else:
                hf.obligations.append(make_ob(hf, path, ln, name, pending))
            pending = {}
            saw_proof = False
            continue
        m = MACRO_USE.match(line)
        if m and m.group(1) in macros:
            # annotations written directly above the invocation override the ones inside the macro definition
            merged = dict(macros[m.group(1)])
            merged.update(pending)
            hf.obligations.append(make_ob(hf, path, ln, m.group(2), merged, inst=m.group(3) or ""))
            pending = {}
    if not (hf.property and hf.crate and hf.target):
        raise SystemExit(f"harness file {path}: missing //@ property/crate/target header")
    return hf


def load_property(prop):
    files = sorted(glob.glob(os.path.join(HARNESS_DIR, prop, "*.rs")))
    hfs = [parse_harness_file(p) for p in files]
    for hf in hfs:
        if hf.property != prop:
            raise SystemExit(f"{hf.path}: property annotation {hf.property} != directory {prop}")
    # harness files of other properties that declare `//@ also: <prop>`
    for p in sorted(glob.glob(os.path.join(HARNESS_DIR, "*", "*.rs"))):
        if os.path.dirname(p) == os.path.join(HARNESS_DIR, prop):
            continue
        with open(p) as f:
            head = f.read(600)
        if re.search(r"^//@ also:.*\b" + re.escape(prop) + r"\b", head, re.M):
            hfs.append(parse_harness_file(p))
    # harness names are used as substring filters: require uniqueness / no-substring
    names = [ob.name for hf in hfs for ob in hf.obligations]
    for a in names:
        for b in names:
            if a != b and a in b:
                raise SystemExit(f"harness name {a} is a substring of {b}: rename")
    if len(set(names)) != len(names):
        raise SystemExit(f"duplicate harness names in {prop}")
    return hfs


# --------------------------------------------------------------------------
# overlay
# --------------------------------------------------------------------------
def make_overlay(prop, hfs, replay_override=None):
    """rsync /repo's working tree to $WORK/<prop>/ov and append one module line per harness file.
    mtimes of injected files are reset to the source mtime so cargo fingerprints stay valid when nothing changed."""
    base = os.path.join(WORK, prop)
    ov = os.path.join(base, "ov")
    os.makedirs(ov, exist_ok=True)
    subprocess.run(["rsync", "-a", "--delete", "--exclude", "/target", "--exclude", ".git", REPO + "/", ov + "/"], check=True)
    appended = {}
    for n, hf in enumerate(hfs):
        path = hf.path
        if replay_override and path in replay_override:
            path = replay_override[path]
        modname = "verif_kani_" + re.sub(r"[^a-z0-9]", "_", os.path.basename(hf.path)[:-3].lower())
        # a harness file that needs cargo features (`//@ cargo_args: --features a,b`) is only compiled in the
        # invocation that enables them; the other harness files of the crate build without it
        feats = []
        ca = hf.cargo_args or []
        for i, x in enumerate(ca):
            if x == "--features" and i + 1 < len(ca):
                feats += [f for f in re.split(r"[ ,]+", ca[i + 1]) if f]
        cond = "kani" if not feats else "all(kani, " + ", ".join(f'feature = "{f}"' for f in feats) + ")"
        appended.setdefault(hf.target, []).append(f'#[cfg({cond})] #[path = "{path}"] mod {modname};')
        for tgt, text in hf.extra_inject:
            appended.setdefault(tgt, []).append(text)
    for tgt, lines in appended.items():
        src = os.path.join(REPO, tgt)
        dst = os.path.join(ov, tgt)
        if not os.path.exists(src):
            raise InconclusiveError(f"target source file {tgt} no longer exists in /repo")
        st = os.stat(src)
        with open(src) as f:
            content = f.read()
        if not content.endswith("\n"):
            content += "\n"
        seen = []
        for l in lines:
            if l not in seen:
                seen.append(l)
        content += "\n".join(seen) + "\n"
        with open(dst, "w") as f:
            f.write(content)
        if not replay_override:
            os.utime(dst, ns=(st.st_atime_ns, st.st_mtime_ns))
        # (replay overlays keep the fresh mtime: successive replays inject different files into the same target
        # source, and with the source's mtime restored cargo would reuse the previous replay's build)
    return ov


class InconclusiveError(Exception):
    pass


# --------------------------------------------------------------------------
# memory watchdog
# --------------------------------------------------------------------------
class Watchdog(threading.Thread):
    def __init__(self, root_pid_getter):
        super().__init__(daemon=True)
        self.getter = root_pid_getter
        self.stop_flag = False
        self.killed = []
        self.peak_gb = 0.0

    def run(self):
        while not self.stop_flag:
            time.sleep(2.0)
            try:
                roots = set(self.getter())
                if not roots:
                    continue
                out = subprocess.run(["ps", "-eo", "pid,ppid,rss,comm"], capture_output=True, text=True).stdout
                procs = {}
                for l in out.splitlines()[1:]:
                    p = l.split(None, 3)
                    if len(p) < 4:
                        continue
                    procs[int(p[0])] = (int(p[1]), int(p[2]), p[3])
                # descendants of roots
                desc = set()
                changed = True
                cur = set(roots)
                while changed:
                    changed = False
                    for pid, (ppid, rss, comm) in procs.items():
                        if ppid in cur and pid not in cur:
                            cur.add(pid)
                            changed = True
                cb = [(pid, procs[pid][1] / 1048576.0) for pid in cur if pid in procs and procs[pid][2].startswith(("cbmc", "goto-", "kissat", "cadical"))]
                total = sum(g for _, g in cb)
                self.peak_gb = max(self.peak_gb, max([g for _, g in cb], default=0.0))
                for pid, g in cb:
                    if g > MEM_CAP_GB:
                        self._kill(pid, g)
                if total > TOTAL_MEM_CAP_GB and cb:
                    pid, g = max(cb, key=lambda x: x[1])
                    self._kill(pid, g)
            except Exception:
                pass

    def _kill(self, pid, g):
        try:
            os.kill(pid, signal.SIGKILL)
            self.killed.append((pid, round(g, 1)))
        except OSError:
            pass


# --------------------------------------------------------------------------
# running Kani
# --------------------------------------------------------------------------
NOISE = re.compile(r"register_tool|crate attribute|^\s*\|\s*$|force-warn|unstable feature|^\s*$|^\s+\|\s|^\s+= note|^ *--> <crate")


def kani_env():
    env = dict(os.environ)
    env["CARGO_NET_OFFLINE"] = "true"
    env.pop("RUSTUP_TOOLCHAIN", None)
    return env


def extra_args(ob):
    """file-level `//@ cargo_args:` (e.g. --features pool) of the harness file the obligation lives in"""
    return list(getattr(ob, "hf", None).cargo_args or []) if getattr(ob, "hf", None) else []


def run_group(prop, ov, crate, obs, tier, jobs, group_tag, results, live_pids):
    """One cargo-kani invocation for all harnesses of one crate. Fills results[ob.name]."""
    base = os.path.join(WORK, prop)
    xargs = extra_args(obs[0])
    xtag = ("-" + re.sub(r"[^A-Za-z0-9]+", "_", " ".join(xargs)).strip("_")) if xargs else ""
    tdir = os.path.join(base, "t-" + crate + xtag)
    outjson = os.path.join(base, f"out-{crate}{xtag}-{group_tag}.json")
    logf = os.path.join(base, f"log-{crate}{xtag}-{group_tag}.txt")
    if os.path.exists(outjson):
        os.remove(outjson)
    tmo = max((ob.timeout or DEFAULT_TIMEOUT[tier]) for ob in obs)
    args = ["cargo", "kani", "-p", crate, "--lib"]
    args += CRATE_ARGS.get(crate, []) + xargs
    args += ["-Z", "stubbing", "-Z", "unstable-options", "--harness-timeout", f"{tmo}s",
             "--target-dir", tdir, "--export-json", outjson, "--output-format", "terse"]
    if jobs > 1:
        args += ["-j", str(jobs)]
    for ob in obs:
        args += ["--harness", ob.name]
    t0 = time.time()
    # ulimit -v per process keeps a single CBMC from eating the machine even if the watchdog is late
    vkb = int((MEM_CAP_GB + 4) * 1048576)
    cmd = f"ulimit -v {vkb}; exec " + " ".join(subprocess.list2cmdline([a]) for a in args)
    with open(logf, "w") as lf:
        p = subprocess.Popen(["bash", "-c", cmd], cwd=ov, env=kani_env(), stdout=lf, stderr=subprocess.STDOUT, start_new_session=True)
        live_pids.add(p.pid)
        try:
            # overall cap: build allowance + sequential worst case over the job slots
            waves = (len(obs) + max(jobs, 1) - 1) // max(jobs, 1)
            p.wait(timeout=900 + tmo * waves + 60)
        except subprocess.TimeoutExpired:
            try:
                os.killpg(p.pid, signal.SIGKILL)
            except OSError:
                pass
            p.wait()
        live_pids.discard(p.pid)
    wall = time.time() - t0
    with open(logf, errors="replace") as lf:
        text = lf.read()
    compile_error = None
    if "could not compile" in text or re.search(r"^error(\[E\d+\])?:", text, re.M) and not os.path.exists(outjson):
        errs = [l for l in text.splitlines() if not NOISE.search(l)]
        idx = next((i for i, l in enumerate(errs) if l.startswith("error")), 0)
        compile_error = "\n".join(errs[idx:idx + 30])
    data = None
    if os.path.exists(outjson):
        try:
            with open(outjson) as f:
                data = json.load(f)
        except Exception as e:
            compile_error = compile_error or f"unreadable kani json: {e}"
    for ob in obs:
        results[ob.name] = classify(ob, data, compile_error, text, wall)
    return wall


def classify(ob, data, compile_error, text, group_wall):
    r = {"obligation": ob.name, "engine": "kani-0.68.0/cbmc-6.11.0/cadical", "file": os.path.relpath(ob.file, VERIF),
         "tier": ob.tier, "functions": ob.functions, "bound": ob.bound, "assumptions": ob.assumes, "stubs": ob.stubs,
         "verdict": "inconclusive", "reason": "", "covers": {}, "failed_checks": [], "stats": {}, "solver_wall_s": None,
         "checks_total": 0}
    if data is None:
        r["reason"] = "no kani result: " + (compile_error or "kani did not produce output (see log)")
        r["compile_error"] = bool(compile_error)
        return r
    hid = None
    res = None
    for x in data.get("verification_results", {}).get("results", []):
        if x["harness_id"].split("::")[-1] == ob.name:
            res = x
            hid = x["harness_id"]
    if res is None:
        r["reason"] = "harness not found in kani output" + (": " + compile_error if compile_error else "")
        return r
    r["harness_id"] = hid
    r["solver_wall_s"] = round(res.get("duration_ms", 0) / 1000.0, 2)
    for c in data.get("cbmc", []):
        if c["harness_id"] == hid and c.get("cbmc_stats"):
            s = c["cbmc_stats"]
            r["stats"] = {k: s.get(k) for k in ("vccs_generated", "vccs_remaining", "size_program_expression", "runtime_symex_s", "runtime_solver_s", "runtime_decision_procedure_s")}
    err = next((e for e in data.get("error_details", []) if e["harness_id"] == hid), {})
    checks = res.get("checks", [])
    r["checks_total"] = len(checks)
    if not checks:
        r["reason"] = "no verdict: " + str(err.get("exit_status") or err.get("error_type") or "cbmc failed") + " (timeout or memory cap)"
        return r
    covers_bad = []
    failed = []
    unwind_failed = []
    undetermined = 0
    unsupported = []
    for c in checks:
        cat, st, desc = c.get("category"), c.get("status"), c.get("description", "")
        loc = c.get("location") or {}
        where = f"{loc.get('file','?')}:{loc.get('line','?')}"
        if cat == "cover":
            r["covers"][desc] = st
            must_be_unreachable = desc.startswith("UNREACHABLE")
            if must_be_unreachable:
                if st == "Satisfied":
                    failed.append({"category": "cover-reached", "description": desc, "where": where, "function": c.get("function")})
                elif st not in ("Unsatisfiable", "Unreachable"):
                    covers_bad.append((desc, st))
            else:
                if st != "Satisfied":
                    covers_bad.append((desc, st))
            continue
        if st == "Failure":
            item = {"category": cat, "description": desc, "where": where, "function": c.get("function")}
            if cat == "unwind":
                unwind_failed.append(item)
            elif cat == "unsupported_construct":
                unsupported.append(item)
            else:
                in_harness = os.path.abspath(loc.get("file", "")) == os.path.abspath(ob.file) or "/replays/" in loc.get("file", "")
                if ob.expect_panics and cat == "assertion" and not in_harness:
                    r.setdefault("expected_panics", []).append(desc[:80])
                    continue
                failed.append(item)
        elif st == "Undetermined":
            undetermined += 1
    r["failed_checks"] = failed[:10]
    if unsupported:
        r["reason"] = "unsupported construct reachable: " + unsupported[0]["description"][:120]
        return r
    if unwind_failed:
        if ob.unwind_is_violation:
            r["verdict"] = "fails"
            r["failed_checks"] = (unwind_failed + failed)[:10]
            r["reason"] = "termination bound exceeded: " + unwind_failed[0]["where"]
            return r
        r["reason"] = "unwinding assertion failed (bound too small for this tree): " + unwind_failed[0]["where"]
        r["failed_checks"] = unwind_failed[:5]
        return r
    if failed:
        r["verdict"] = "fails"
        r["reason"] = "; ".join(f"{x['description'][:100]} @ {x['where']}" for x in failed[:3])
        return r
    if undetermined:
        r["reason"] = f"{undetermined} checks undetermined"
        return r
    if res.get("status") != "Success" and not ob.expect_panics:
        r["reason"] = "kani status " + str(res.get("status"))
        return r
    if covers_bad:
        r["reason"] = "vacuity witness not satisfied: " + ", ".join(f"{d}={s}" for d, s in covers_bad[:4])
        return r
    if not r["covers"]:
        r["reason"] = "harness has no cover witness"
        return r
    r["verdict"] = "holds"
    return r


# --------------------------------------------------------------------------
# replay of a counterexample against the native build
# --------------------------------------------------------------------------
def replay(prop, hfs, ob, res, ov_unused):
    """Ask Kani for the concrete values, turn them into a #[test] next to the harness, run it natively
    (cargo kani playback = ordinary rustc test build, dev profile) and decide whether it reproduces."""
    base = os.path.join(WORK, prop)
    tag = hashlib.sha1((ob.name + res["reason"]).encode()).hexdigest()[:8]
    rdir = os.path.join(REPLAY_DIR, prop, f"{ob.name}-{tag}")
    os.makedirs(rdir, exist_ok=True)
    info = {"obligation": ob.name, "reason": res["reason"], "failed_checks": res["failed_checks"], "reproduced": False}
    ov = make_overlay(prop + "-replay", hfs)
    tdir = os.path.join(WORK, prop + "-replay", "t-" + ob.crate)
    args = ["cargo", "kani", "-p", ob.crate, "--lib"] + CRATE_ARGS.get(ob.crate, []) + extra_args(ob) + [
        "-Z", "stubbing", "-Z", "unstable-options", "-Z", "concrete-playback", "--concrete-playback=print",
        "--harness-timeout", f"{(ob.timeout or 600) * 2}s", "--target-dir", tdir, "--harness", ob.name]
    p = subprocess.run(args, cwd=ov, env=kani_env(), capture_output=True, text=True)
    out = p.stdout + p.stderr
    with open(os.path.join(rdir, "kani_playback_output.txt"), "w") as f:
        f.write("\n".join(l for l in out.splitlines() if not NOISE.search(l)))
    # Kani prints one playback test per failed check (each from its own trace); keep them all (distinct, capped):
    # the counterexample counts as reproduced when any of them fails natively
    blocks = [b.strip() for b in re.findall(r"```\n?(.*?)```", out, re.S) if "#[test]" in b]
    tests, seen = [], set()
    for b in blocks:
        nm = re.search(r"fn\s+(kani_concrete_playback_[A-Za-z0-9_]+)", b)
        if nm and nm.group(1) not in seen:
            seen.add(nm.group(1))
            tests.append(b)
    tests = tests[:8]
    test_src = "\n\n".join(tests) if tests else None
    if not test_src:
        info["note"] = "kani produced no concrete playback test (e.g. failure not tied to concrete values)"
        with open(os.path.join(rdir, "replay.json"), "w") as f:
            json.dump(info, f, indent=1)
        return rdir, info
    tname = "kani_concrete_playback_" + ob.name if len(tests) > 1 else sorted(seen)[0]
    with open(ob.file) as f:
        hsrc = f.read()
    rfile = os.path.join(rdir, os.path.basename(ob.file))
    with open(rfile, "w") as f:
        f.write(hsrc + "\n\n// ---- concrete counterexample generated by Kani (replay) ----\n" + test_src + "\n")
    info["replay_test"] = tname
    info["replay_tests"] = sorted(seen)[:8]
    info["concrete_values"] = re.findall(r"//\s*(.+)\n\s*vec!\[([^\]]*)\]", test_src)[:40]
    ov = make_overlay(prop + "-replay", hfs, replay_override={ob.file: rfile})
    args = ["cargo", "kani", "playback", "-Z", "concrete-playback", "-p", ob.crate, "--lib"] + REPLAY_CRATE_ARGS.get(ob.crate, CRATE_ARGS.get(ob.crate, [])) + extra_args(ob) + ["--", tname or "kani_concrete_playback"]
    env = kani_env()
    env["CARGO_TARGET_DIR"] = os.path.join(WORK, prop + "-replay", "t-playback")
    p = subprocess.run(args, cwd=ov, env=env, capture_output=True, text=True)
    out = p.stdout + p.stderr
    with open(os.path.join(rdir, "native_replay_output.txt"), "w") as f:
        f.write("\n".join(l for l in out.splitlines() if not NOISE.search(l)))
    ran = re.search(r"test result: (\w+)\. (\d+) passed; (\d+) failed", out)
    native_failed = bool(ran and int(ran.group(3)) > 0)
    native_passed = bool(ran and int(ran.group(2)) > 0 and int(ran.group(3)) == 0)
    panic_msgs = re.findall(r"panicked at ([^\n]*)\n([^\n]*)", out)
    info["native_panics"] = [f"{a} {b}"[:200] for a, b in panic_msgs[:3]]
    cats = {x["category"] for x in res["failed_checks"]}
    if native_failed:
        info["reproduced"] = True
        info["class"] = "native-failure"
    elif native_passed and cats & {"pointer_dereference", "safety_check", "bounds_check", "pointer_arithmetic", "memory-leak", "cover-reached", "unwind"}:
        # a memory-safety / accepted-invalid / termination verdict does not panic natively; the concrete
        # inputs are kept and the CBMC verdict over the compiled code is reported as such
        info["reproduced"] = True
        info["class"] = "solver-verdict-only (" + ",".join(sorted(cats)) + "); native run of the same inputs does not panic"
    else:
        info["class"] = "not reproduced"
        if not ran:
            info["note"] = "native playback build/run failed; see native_replay_output.txt"
    with open(os.path.join(rdir, "replay.json"), "w") as f:
        json.dump(info, f, indent=1)
    return rdir, info


# --------------------------------------------------------------------------
# known findings
# --------------------------------------------------------------------------
def load_known():
    if not os.path.exists(KNOWN):
        return {"findings": [], "fixed": []}
    with open(KNOWN) as f:
        return json.load(f)


# --------------------------------------------------------------------------
# main
# --------------------------------------------------------------------------
def git_rev(path):
    try:
        h = subprocess.run(["git", "-C", path, "rev-parse", "--short", "HEAD"], capture_output=True, text=True).stdout.strip()
        d = subprocess.run(["git", "-C", path, "status", "--porcelain"], capture_output=True, text=True).stdout.strip()
        return h + ("+dirty" if d else "")
    except Exception:
        return "?"


def main():
    ap = argparse.ArgumentParser()
    ap.add_argument("prop", nargs="?")
    ap.add_argument("--tier", default=os.environ.get("VERIF_TIER", "quick"), choices=["quick", "thorough"])
    ap.add_argument("--only", action="append", default=[])
    ap.add_argument("--jobs", type=int, default=int(os.environ.get("VERIF_JOBS", "12")))
    ap.add_argument("--list", action="store_true")
    ap.add_argument("--clean", action="store_true")
    ap.add_argument("--no-replay", action="store_true")
    ap.add_argument("--no-evidence", action="store_true", help="do not rewrite the evidence file (development runs with --only)")
    ap.add_argument("--replay", help="re-run a stored replay directory natively")
    a = ap.parse_args()
    if a.clean:
        shutil.rmtree(WORK, ignore_errors=True)
        return 0
    if a.list:
        for d in sorted(os.listdir(HARNESS_DIR)):
            if not os.path.isdir(os.path.join(HARNESS_DIR, d)):
                continue
            for hf in load_property(d):
                for ob in hf.obligations:
                    print(f"{d} {ob.tier:8s} {hf.crate:16s} {ob.name}  [{ob.bound}]")
        return 0
    prop = a.prop
    if not prop:
        ap.error("property id required")
    seed = int(os.environ.get("VERIF_SEED", "0") or 0)
    t_start = time.time()
    hfs = load_property(prop)
    if not hfs:
        log(f"no harness files for {prop}")
        return 2
    extra = []
    mfile = os.path.join(VERIF, "engine", "mir2smt.py")
    all_obs = [ob for hf in hfs for ob in hf.obligations]
    sel = [ob for ob in all_obs if (a.tier == "thorough" or ob.tier == "quick")]
    if a.only:
        sel = [ob for ob in sel if any(s in ob.name for s in a.only)]
    results = {}
    exit_code = 0
    inconclusive = []
    try:
        ov = make_overlay(prop, hfs)
    except InconclusiveError as e:
        log(f"INCONCLUSIVE property={prop}: {e}")
        return finish(prop, a, seed, t_start, sel, results, [], [str(e)], [], 2)
    groups = {}
    for ob in sel:
        groups.setdefault((ob.crate, tuple(extra_args(ob))), []).append(ob)
    live = set()
    wd = Watchdog(lambda: list(live))
    wd.start()
    threads = []
    per = max(1, a.jobs // max(1, len(groups)))
    for (crate, _xa), obs in groups.items():
        # slow obligations first so the tail is short
        obs.sort(key=lambda o: -(o.timeout or 0))
        t = threading.Thread(target=run_group, args=(prop, ov, crate, obs, a.tier, min(per, len(obs)), a.tier, results, live))
        t.start()
        threads.append(t)
    for t in threads:
        t.join()
    wd.stop_flag = True

    # Engine M obligations (MIR -> SMT), if this property has any
    m_results = []
    mdir = os.path.join(VERIF, "smt", prop)
    if os.path.isdir(mdir) and not a.only:
        sys.path.insert(0, os.path.join(VERIF, "engine"))
        import mir2smt
        m_results = mir2smt.run_property(prop, a.tier, WORK, REPO, log)
    elif os.path.isdir(mdir) and a.only:
        sys.path.insert(0, os.path.join(VERIF, "engine"))
        import mir2smt
        m_results = [r for r in mir2smt.run_property(prop, a.tier, WORK, REPO, log, only=a.only)]

    known = load_known()
    violations = []
    known_hits = []
    for ob in sel:
        r = results.get(ob.name) or {"obligation": ob.name, "verdict": "inconclusive", "reason": "not run"}
        results[ob.name] = r
        if r["verdict"] == "holds":
            log(f"  holds         {ob.name}  ({r.get('solver_wall_s')} s, {r['checks_total']} checks, covers {sum(1 for v in r['covers'].values() if v=='Satisfied')}/{len(r['covers'])})")
        elif r["verdict"] == "fails":
            kf = next((k for k in known.get("findings", []) if k.get("property") == prop and k.get("obligation") == ob.name), None)
            if kf:
                known_hits.append((kf, r))
                r["known_finding"] = kf["id"]
                log(f"KNOWN-FINDING: property={prop} {kf['id']} {kf['what']}")
                continue
            if a.no_replay:
                log(f"  FAILS(no replay) {ob.name}: {r['reason']}")
                violations.append((ob, r, None))
                continue
            log(f"  counterexample for {ob.name}: {r['reason']} -- replaying natively")
            try:
                rdir, info = replay(prop, hfs, ob, r, ov)
            except Exception as e:  # replay machinery failure => inconclusive, never silent
                rdir, info = None, {"reproduced": False, "class": f"replay error {e}"}
            r["replay"] = info
            if info.get("reproduced"):
                violations.append((ob, r, rdir))
            else:
                r["verdict"] = "inconclusive"
                r["reason"] = "counterexample did not reproduce natively (" + info.get("class", "") + "): " + r["reason"]
                inconclusive.append(ob.name)
                log(f"  INCONCLUSIVE  {ob.name}: {r['reason']}")
        else:
            inconclusive.append(ob.name)
            log(f"  INCONCLUSIVE  {ob.name}: {r['reason'][:600]}")
    for mr in m_results:
        if mr["verdict"] == "holds":
            log(f"  holds         {mr['obligation']}  (engine M, {mr.get('solver_wall_s')} s)")
        elif mr["verdict"] == "fails":
            violations.append((None, mr, mr.get("replay_path")))
        else:
            inconclusive.append(mr["obligation"])
            log(f"  INCONCLUSIVE  {mr['obligation']}: {mr.get('reason','')[:400]}")
    for ob, r, rdir in violations:
        name = ob.name if ob else r["obligation"]
        log(f"VIOLATION property={prop} replay={rdir or os.path.join(REPLAY_DIR, prop, name)}")
        log(f"  obligation {name}: {r['reason']}")
    if violations:
        exit_code = 1
    elif inconclusive:
        exit_code = 2
    return finish(prop, a, seed, t_start, sel, results, m_results, inconclusive, violations, exit_code, wd)


def finish(prop, a, seed, t_start, sel, results, m_results, inconclusive, violations, exit_code, wd=None):
    wall = time.time() - t_start
    obs_all = [results[o.name] for o in sel if o.name in results] + list(m_results)
    holds = [r for r in obs_all if r.get("verdict") == "holds"]
    nontrivial = [r for r in holds if r.get("engine", "").startswith("mir2smt") or (r.get("covers") and all(v == "Satisfied" or k.startswith("UNREACHABLE") for k, v in r["covers"].items()))]
    queries = sum(1 for r in obs_all if r.get("checks_total") or r.get("queries"))
    checks_total = sum((r.get("checks_total") or 0) + (r.get("queries") or 0) for r in obs_all)
    funcs = sorted({f for r in obs_all for f in r.get("functions", [])})
    samples = []
    for r in obs_all[:60]:
        samples.append({"obligation": r.get("obligation"), "engine": r.get("engine"), "verdict": r.get("verdict"), "bound": r.get("bound"),
                        "functions": r.get("functions"), "solver_wall_s": r.get("solver_wall_s"), "stats": r.get("stats"),
                        "covers": r.get("covers"), "assumptions": r.get("assumptions"), "stubs": r.get("stubs"),
                        "reason": r.get("reason") or None, "replay": r.get("replay"), "known_finding": r.get("known_finding")})
    ev = {
        "property_id": prop,
        "tier": a.tier,
        "seed": seed,
        "level": "model_checking",
        "coverage": {
            "evaluations": max(checks_total, 0),
            "distinct_nontrivial": len(nontrivial),
            "rule": "one evaluation = one CBMC/SMT check (assertion, memory-safety, overflow, unwinding or cover property) decided by the solver over all inputs inside the obligation's stated bound; an obligation counts as distinct and non-trivial when its verdict is 'holds' AND every vacuity witness (kani::cover!) in it was SATISFIED, i.e. the asserted region is reachable",
            "obligations": len(obs_all),
            "discharged": len(holds),
            "solver_queries": len(obs_all),
            "functions_encoded": funcs,
            "samples": samples,
            "exhaustive": False,
            "explanation": "bounded model checking of the real compiled functions (Kani/CBMC over the overlay copy of /repo's working tree; MIR->SMT for the loop-free integer kernels): every value inside each obligation's bound, nothing outside it",
            "solver_time_s": round(sum((r.get("solver_wall_s") or 0) for r in obs_all), 1),
            "peak_cbmc_rss_gb": round(wd.peak_gb, 2) if wd else None,
            "watchdog_kills": wd.killed if wd else [],
            "inconclusive": inconclusive,
            "repo_rev": git_rev(REPO),
            "checker_cmd": f"./check {prop} --tier {a.tier}",
            "trusted_base": ["rustc/Kani 0.68 MIR->GOTO translation", "CBMC 6.11 + CaDiCaL", "Kani's allocator/align_to/atomics models", "harness oracles in /verif/harness"],
        },
        "assumptions": sorted({s for r in obs_all for s in (r.get("assumptions") or [])} | {"stub: " + s for r in obs_all for s in (r.get("stubs") or [])}),
        "wall_s": round(wall, 1),
        "violations": len(violations),
    }
    if not a.no_evidence:
        os.makedirs(EVIDENCE_DIR, exist_ok=True)
        with open(os.path.join(EVIDENCE_DIR, prop + ".json"), "w") as f:
            json.dump(ev, f, indent=1)
    log(f"{prop} tier={a.tier}: {len(holds)}/{len(obs_all)} obligations hold, {len(inconclusive)} inconclusive, {len(violations)} violations, wall {wall:.0f}s -> exit {exit_code}")
    return exit_code


if __name__ == "__main__":
    sys.exit(main())
