#!/bin/bash
# Offline setup: nothing to download or build ahead of time; checks rebuild from /repo on every run.
set -e
cd "$(dirname "$(readlink -f "$0")")"
mkdir -p "${VERIF_WORK:-/var/tmp/verif-work}" evidence
python3 engine/driver.py --list > /dev/null
cargo kani --version
echo "setup ok"
