"""Engine M obligations for C12: i256 multiplication (arrow-buffer/src/bigint/mod.rs).

  m_i256_mulx          mulx(a, b) == (low, high) of the exact 256-bit product, no internal overflow assertion fails
  m_i256_wrapping_mul  i256::wrapping_mul == exact product mod 2^256
  m_i256_checked_mul   i256::checked_mul == Some(exact product) iff it fits the signed 256-bit range, else None

All three are stated over the uninterpreted 64x64->128 product `mul64` (see engine/mir2smt.py): the reference
side is the schoolbook sum over the same products, so nothing about the solver's ability to multiply is needed.
The translator is validated on every run by evaluating the generated terms (with mul64 defined as real
multiplication) on concrete inputs and comparing with the natively compiled function.
"""
import os
import random
import time

EXAMPLE = r'''
use arrow_buffer::i256;
use std::io::BufRead;
fn main() {
    let stdin = std::io::stdin();
    for line in stdin.lock().lines() {
        let line = line.unwrap();
        let p: Vec<&str> = line.split_whitespace().collect();
        if p.len() != 5 { continue; }
        let a = i256::from_parts(p[1].parse::<u128>().unwrap(), p[2].parse::<u128>().unwrap() as i128);
        let b = i256::from_parts(p[3].parse::<u128>().unwrap(), p[4].parse::<u128>().unwrap() as i128);
        match p[0] {
            "w" => { let (l, h) = a.wrapping_mul(b).to_parts(); println!("{} {}", l, h as u128); }
            "c" => match a.checked_mul(b) { Some(r) => { let (l, h) = r.to_parts(); println!("some {} {}", l, h as u128); } None => println!("none") },
            _ => {}
        }
    }
}
'''

M128 = (1 << 128) - 1


def interesting_values(rng):
    vals = [0, 1, 2, M128, M128 - 1, 1 << 64, (1 << 64) - 1, (1 << 64) + 1, 1 << 127, (1 << 127) - 1, (1 << 127) + 1,
            0xFFFFFFFFFFFFFFFF0000000000000000, 0x0000000000000000FFFFFFFFFFFFFFFF, 10 ** 38, 12345678901234567890]
    vals += [rng.getrandbits(128) for _ in range(10)]
    vals += [rng.getrandbits(64) for _ in range(4)]
    return vals


def to_signed256(lo, hi):
    v = (hi << 128) | lo
    return v - (1 << 256) if v >> 255 else v


def obligations(M, tier, work, repo, log, only):
    results = []

    def want(name):
        return not only or any(s in name for s in only)

    names = ['m_i256_mulx_exact', 'm_i256_wrapping_mul_exact', 'm_i256_checked_mul_exact']
    if not any(want(n) for n in names):
        return results
    t_start = time.time()
    base_result = {'engine': 'mir2smt (MIR -> SMT-LIB2 bit-vectors; z3 4.8.12 + cvc5 1.0 must agree)', 'tier': 'quick', 'covers': {},
                   'stubs': ['64x64->128 products abstracted by the uninterpreted function mul64 with range/zero/one/monotonicity axioms (all true of multiplication)'],
                   'assumptions': ['rustc nightly MIR of the overlay copy of /repo (-C overflow-checks=on) is the code that runs; u128::checked_mul / wrapping_mul / checked_add / overflowing_sub have their documented semantics']}
    try:
        mirfile, ov, base = M.dump_mir('arrow-buffer', work, repo, log)
        fns = M.parse_functions(open(mirfile).read())
    except Exception as e:  # noqa
        for n in names:
            if want(n):
                results.append(dict(base_result, obligation=n, verdict='inconclusive', reason=f'MIR dump/parse failed: {e}', functions=[], bound='', queries=0))
        return results

    rng = random.Random(int(os.environ.get('VERIF_SEED', '0') or 0) + 12)
    vals = interesting_values(rng)

    def decl(names_):
        return '\n'.join(f'(declare-const {n} (_ BitVec 128))' for n in names_)

    def solve(name, tr, decls, prop_term, functions, bound, validate, cases=None, ob_tier='quick', exhaustive=True):
        """assert not( all MIR assert obligations hold AND prop ) ; both solvers must say unsat (per case, if the input space is
        split into cases whose disjunction is checked to be exhaustive); then validate the translation natively"""
        obl = ' '.join(f'(=> {pc} {c})' for pc, c, _ in tr.obligations) or 'true'
        head = M.PRELUDE + decls + '\n' + '\n'.join(tr.defs) + '\n' + '\n'.join(M.axioms(tr.mul_sites)) + '\n'
        cases_ = cases or [('all', 'true')]
        to = 900 if tier == 'quick' else 3600
        verdicts = []
        wall = 0.0
        nq = 0
        stats = {'mir_assert_obligations': len(tr.obligations), 'definitions': len(tr.defs), 'mul64_sites': len(set(tr.mul_sites)), 'cases': {}}
        if cases and exhaustive:
            # the cases must cover the whole input space
            q = head + '(assert (not (or ' + ' '.join(c for _, c in cases) + ')))\n(check-sat)\n'
            r = M.run_solver(['/usr/bin/z3', '-in', '-T:120'], q, 150)
            nq += 1
            wall += r[1]
            stats['cases']['exhaustive'] = r[0]
            if r[0] != 'unsat':
                verdicts.append(('exhaustiveness', r[0], r[0]))
        qfile = None
        def one_case(case):
            cname, cterm = case
            q = head + f'(assert {cterm})\n(assert (not (and {obl} {prop_term})))\n(check-sat)\n'
            qf = os.path.join(base, f'{name}-{cname}.smt2')
            open(qf, 'w').write(q)

            def z3_side():
                r1 = M.run_solver(['/usr/bin/z3', '-in', f'-T:{to}'], q, to + 30)
                if r1[0] in ('timeout', 'unknown', 'error'):
                    r1b = M.run_solver(['z3-new', '-in', f'-T:{to}'], q, to + 30)
                    r1 = (r1b[0], r1[1] + r1b[1], 'z3-new: ' + r1b[2][:100])
                return r1

            with concurrent.futures.ThreadPoolExecutor(2) as ex2:
                f1 = ex2.submit(z3_side)
                f2 = ex2.submit(M.run_solver, ['cvc5', '--lang', 'smt2', f'--tlimit={to * 1000}'], q, to + 30)
                r1, r2 = f1.result(), f2.result()
            log(f"  [engine M] {name}[{cname}]: z3={r1[0]} ({r1[1]:.1f}s) cvc5={r2[0]} ({r2[1]:.1f}s)")
            return cname, r1, r2, qf

        import concurrent.futures
        with concurrent.futures.ThreadPoolExecutor(max(1, min(len(cases_), int(os.environ.get('VERIF_JOBS', '8') or 8) // 2))) as ex:
            for cname, r1, r2, qfile in ex.map(one_case, cases_):
                nq += 2
                wall += r1[1] + r2[1]
                stats['cases'][cname] = {'z3': [r1[0], round(r1[1], 1)], 'cvc5': [r2[0], round(r2[1], 1)]}
                verdicts.append((cname, r1[0], r2[0]))
        res = dict(base_result, obligation=name, tier=ob_tier, functions=functions, bound=bound, queries=nq + len(tr.obligations),
                   solver_wall_s=round(wall, 1), stats=dict(stats, query_file=qfile))
        if all(a == 'unsat' and b == 'unsat' for _, a, b in verdicts):
            ok, detail, n = validate()
            res['stats']['translator_validation'] = detail
            res['covers'] = {'translator agrees with the native function on %d concrete inputs' % n: 'Satisfied' if ok else 'FAILED'}
            if ok:
                res['verdict'] = 'holds'
                res['reason'] = ''
            else:
                res['verdict'] = 'inconclusive'
                res['reason'] = 'translator validation failed: ' + detail
        elif any(a == 'sat' or b == 'sat' for _, a, b in verdicts):
            cname = next(c for c, a, b in verdicts if a == 'sat' or b == 'sat')
            res['verdict'] = 'inconclusive'
            res['reason'] = f'solver returned sat in case {cname}; model replay through the native function is required before reporting'
            q = open(os.path.join(base, f'{name}-{cname}.smt2')).read()
            model = replay_model(name, q, decls)
            if model is not None:
                res.update(model)
        else:
            res['verdict'] = 'inconclusive'
            res['reason'] = 'no agreement: ' + '; '.join(f'{c}: z3={a} cvc5={b}' for c, a, b in verdicts if not (a == 'unsat' and b == 'unsat'))
        log(f"  [engine M] {name} -> {res['verdict']} {res.get('reason', '')[:150]}")
        return res

    def replay_model(name, q, decls):
        """get a model from z3 for the declared inputs and run the native function on it; a natively wrong result is a violation"""
        consts = [l.split()[1] for l in decls.splitlines() if l.startswith('(declare-const')]
        q2 = q + '(get-value (' + ' '.join(consts) + '))\n'
        st, _, out = M.run_solver(['/usr/bin/z3', '-in', '-T:600'], q2, 700)
        if st != 'sat':
            return None
        vals_ = {}
        for c in consts:
            import re
            m = re.search(r'\(' + c + r' #x([0-9a-f]+)\)', out)
            if m:
                vals_[c] = int(m.group(1), 16)
        if len(vals_) != len(consts):
            return None
        if name == 'm_i256_mulx_exact':
            al, ah, bl, bh = vals_['a'], 0, vals_['b'], 0
            op = 'w'
        else:
            al, ah, bl, bh = vals_['al'], vals_['ah'], vals_['bl'], vals_['bh']
            op = 'c' if 'checked' in name else 'w'
        try:
            out_lines = M.native_eval(ov, base, 'arrow-buffer', EXAMPLE, [f'{op} {al} {ah} {bl} {bh}'], log)
        except Exception as e:  # noqa
            return {'reason': f'sat model found but native replay failed to run: {e}'}
        got = out_lines[0] if out_lines else ''
        exp = expected(op, al, ah, bl, bh)
        rdir = os.path.join(os.path.dirname(os.path.dirname(os.path.dirname(os.path.abspath(__file__)))), 'replays', 'C12', name)
        os.makedirs(rdir, exist_ok=True)
        open(os.path.join(rdir, 'model.txt'), 'w').write(f'op={op} a=({al},{ah}) b=({bl},{bh})\nnative: {got}\nexpected: {exp}\n')
        if got != exp:
            return {'verdict': 'fails', 'reason': f'native i256 {"checked_mul" if op == "c" else "wrapping_mul"} on a=({al},{ah}) b=({bl},{bh}) returned [{got}], exact arithmetic gives [{exp}]',
                    'replay_path': rdir}
        return {'reason': f'solver model a=({al},{ah}) b=({bl},{bh}) does NOT reproduce natively (native result is exact): encoding problem'}

    def expected(op, al, ah, bl, bh):
        a, b = to_signed256(al, ah), to_signed256(bl, bh)
        p = a * b
        if op == 'w':
            m = p % (1 << 256)
            return f'{m & M128} {m >> 128}'
        if -(1 << 255) <= p < (1 << 255):
            m = p % (1 << 256)
            return f'some {m & M128} {m >> 128}'
        return 'none'

    def eval_terms(tr, decls, outs, assignments):
        """evaluate output terms for concrete inputs with mul64 = real multiplication (one z3 process, push/pop)"""
        pre = M.PRELUDE.replace('(declare-fun mul64u ((_ BitVec 64) (_ BitVec 64)) (_ BitVec 128))', M.REAL_MUL64)
        q = pre + decls + '\n' + '\n'.join(tr.defs) + '\n'
        for asg in assignments:
            q += '(push)\n' + ''.join(f'(assert (= {k} (_ bv{v} 128)))\n' for k, v in asg.items()) + '(check-sat)\n(get-value (' + ' '.join(outs) + '))\n(pop)\n'
        st, _, out = M.run_solver(['/usr/bin/z3', '-in', '-T:300'], q, 330)
        import re
        res = []
        for chunk in out.split('sat')[1:]:
            vs = re.findall(r'\(\s*[A-Za-z_][A-Za-z0-9_]*\s+(#x[0-9a-f]+|#b[01]+|true|false)\s*\)', chunk)
            res.append([int(v[2:], 16) if v.startswith('#x') else (int(v[2:], 2) if v.startswith('#b') else v) for v in vs])
        return res

    # ------------------------------------------------------------------ mulx
    if want('m_i256_mulx_exact'):
        try:
            tr = M.Translator(fns)
            r = tr.call(tr.resolve('mulx'), [M.Val.bv('a', 'u128'), M.Val.bv('b', 'u128')], [])
            lo, hi = r.fields[0].term, r.fields[1].term
            tr.mul128full('a', 'b')
            prop = f'(= (concat {hi} {lo}) (mul128full a b))'

            def validate():
                pairs = [(x, y) for x in vals[:12] for y in vals[:12]][:100]
                got = eval_terms(tr, decl(['a', 'b']), [lo, hi], [{'a': x, 'b': y} for x, y in pairs])
                nat = M.native_eval(ov, base, 'arrow-buffer', EXAMPLE, [f'w {x} 0 {y} 0' for x, y in pairs], log)
                bad = 0
                for (x, y), g, n_ in zip(pairs, got, nat):
                    p = x * y
                    if len(g) != 2 or g[0] != p & M128 or g[1] != p >> 128 or n_ != f'{p & M128} {p >> 128}':
                        bad += 1
                return (bad == 0 and len(got) == len(pairs) == len(nat)), f'{len(pairs) - bad}/{len(pairs)} concrete inputs: SMT term == native == exact', len(pairs)

            results.append(solve('m_i256_mulx_exact', tr, decl(['a', 'b']), prop, ['arrow_buffer::bigint::mulx', 'mulx::split'],
                                 'full width: every pair of u128 operands; all MIR overflow/shift assertions of mulx included as obligations', validate))
        except M.Unsupported as e:
            results.append(dict(base_result, obligation='m_i256_mulx_exact', verdict='inconclusive', reason=f'translator: {e}', functions=['mulx'], bound='', queries=0))

    # ------------------------------------------------------------------ wrapping_mul
    def i256_args():
        a = M.Val('agg', fields={0: M.Val.bv('al', 'u128'), 1: M.Val.bv('ah', 'i128')})
        b = M.Val('agg', fields={0: M.Val.bv('bl', 'u128'), 1: M.Val.bv('bh', 'i128')})
        return a, b

    quads = [(vals[i % len(vals)], vals[(i * 7 + 3) % len(vals)], vals[(i * 5 + 1) % len(vals)], vals[(i * 11 + 2) % len(vals)]) for i in range(60)]
    quads += [(x, 0, y, 0) for x in vals[:6] for y in vals[:6]] + [(0, 0, 5, 7), (1, 0, M128, M128), (M128, M128, M128, M128), (0, 1 << 127, M128, M128), (0, 1 << 127, 1, 0)]

    if want('m_i256_wrapping_mul_exact') and tier == 'thorough':
        try:
            tr = M.Translator(fns)
            a, b = i256_args()
            r = tr.call(tr.resolve('i256::wrapping_mul'), [a, b], [])
            lo, hi = r.fields[0].term, r.fields[1].term
            for x, y in (('al', 'bl'), ('ah', 'bl'), ('al', 'bh')):
                tr.mul128full(x, y)
            # (a*b) mod 2^256 with a = ah*2^128 + al: the ah*bh term vanishes mod 2^256
            prop = f'(= (concat {hi} {lo}) (bvadd (mul128full al bl) (bvshl (bvadd (mul128full ah bl) (mul128full al bh)) (_ bv128 256))))'

            def validate():
                got = eval_terms(tr, decl(['al', 'ah', 'bl', 'bh']), [lo, hi], [{'al': q[0], 'ah': q[1], 'bl': q[2], 'bh': q[3]} for q in quads])
                nat = M.native_eval(ov, base, 'arrow-buffer', EXAMPLE, [f'w {q[0]} {q[1]} {q[2]} {q[3]}' for q in quads], log)
                bad = 0
                for q, g, n_ in zip(quads, got, nat):
                    e = expected('w', *q)
                    if len(g) != 2 or f'{g[0]} {g[1]}' != e or n_ != e:
                        bad += 1
                return (bad == 0 and len(got) == len(quads) == len(nat)), f'{len(quads) - bad}/{len(quads)} concrete inputs: SMT term == native == exact', len(quads)

            results.append(solve('m_i256_wrapping_mul_exact', tr, decl(['al', 'ah', 'bl', 'bh']), prop,
                                 ['arrow_buffer::i256::wrapping_mul', 'arrow_buffer::bigint::mulx'], 'full width: every pair of i256 operands', validate, ob_tier='thorough'))
        except M.Unsupported as e:
            results.append(dict(base_result, obligation='m_i256_wrapping_mul_exact', verdict='inconclusive', reason=f'translator: {e}', functions=['i256::wrapping_mul'], bound='', queries=0))

    # ------------------------------------------------------------------ checked_mul
    if want('m_i256_checked_mul_exact') and tier == 'thorough':
        try:
            tr = M.Translator(fns)
            a, b = i256_args()
            r = tr.call(tr.resolve('i256::checked_mul'), [a, b], [])
            disc = r.term
            lo, hi = r.some.fields[0].term, r.some.fields[1].term
            # magnitudes |a|, |b| as unsigned 256-bit values (|MIN| = 2^255), split in 128-bit halves
            pre = [
                '(define-fun A () (_ BitVec 256) (concat ah al))', '(define-fun B () (_ BitVec 256) (concat bh bl))',
                '(define-fun na () Bool (bvslt ah (_ bv0 128)))', '(define-fun nb () Bool (bvslt bh (_ bv0 128)))',
                '(define-fun MA () (_ BitVec 256) (ite na (bvneg A) A))', '(define-fun MB () (_ BitVec 256) (ite nb (bvneg B) B))',
                '(define-fun mal () (_ BitVec 128) ((_ extract 127 0) MA))', '(define-fun mah () (_ BitVec 128) ((_ extract 255 128) MA))',
                '(define-fun mbl () (_ BitVec 128) ((_ extract 127 0) MB))', '(define-fun mbh () (_ BitVec 128) ((_ extract 255 128) MB))',
                '(define-fun z512 ((x (_ BitVec 256))) (_ BitVec 512) ((_ zero_extend 256) x))',
                # exact |a|*|b| in 512 bits
                '(define-fun P () (_ BitVec 512) (bvadd (z512 (mul128full mal mbl)) (bvshl (bvadd (z512 (mul128full mah mbl)) (z512 (mul128full mal mbh))) (_ bv128 512)) (bvshl (z512 (mul128full mah mbh)) (_ bv256 512))))',
                '(define-fun neg () Bool (xor na nb))',
                '(define-fun LIM () (_ BitVec 512) (bvshl (_ bv1 512) (_ bv255 512)))',
                '(define-fun fits () Bool (ite neg (bvule P LIM) (bvult P LIM)))',
                '(define-fun P256 () (_ BitVec 256) ((_ extract 255 0) P))',
                '(define-fun R () (_ BitVec 256) (ite neg (bvneg P256) P256))',
            ]
            for x, y in (('mal', 'mbl'), ('mah', 'mbl'), ('mal', 'mbh'), ('mah', 'mbh')):
                tr.mul128full(x, y)
            tr.defs = pre + tr.defs
            prop = f'(and (= {disc} fits) (=> fits (= (concat {hi} {lo}) R)))'

            def validate():
                got = eval_terms(tr, decl(['al', 'ah', 'bl', 'bh']), [disc, lo, hi], [{'al': q[0], 'ah': q[1], 'bl': q[2], 'bh': q[3]} for q in quads])
                nat = M.native_eval(ov, base, 'arrow-buffer', EXAMPLE, [f'c {q[0]} {q[1]} {q[2]} {q[3]}' for q in quads], log)
                bad = 0
                some = 0
                for q, g, n_ in zip(quads, got, nat):
                    e = expected('c', *q)
                    s = 'none' if (len(g) == 3 and g[0] == 'false') else (f'some {g[1]} {g[2]}' if len(g) == 3 else '?')
                    some += e != 'none'
                    if s != e or n_ != e:
                        bad += 1
                return (bad == 0 and len(got) == len(quads) == len(nat) and 0 < some < len(quads)), f'{len(quads) - bad}/{len(quads)} concrete inputs ({some} non-overflowing): SMT term == native == exact', len(quads)

            cases = []
            for sa, ta in (('ap', '(not na)'), ('an', 'na')):
                for sb, tb in (('bp', '(not nb)'), ('bn', 'nb')):
                    # the two mixed classes (exactly one magnitude >= 2^128: h0x, hx0) were measured at 2900-5200 s per case
                    # with z3 and no cvc5 answer in 3600 s: they are OUTSIDE this claim (stated in the bound)
                    for hz, th in (('h00', '(and (= mah (_ bv0 128)) (= mbh (_ bv0 128)))'),
                                   ('hxx', '(and (not (= mah (_ bv0 128))) (not (= mbh (_ bv0 128))))')):
                        cases.append((f'{sa}{sb}{hz}', f'(and {ta} {tb} {th})'))
            results.append(solve('m_i256_checked_mul_exact', tr, decl(['al', 'ah', 'bl', 'bh']), prop,
                                 ['arrow_buffer::i256::checked_mul', 'i256::wrapping_abs', 'i256::wrapping_sub', 'i256::is_eq', 'i256::is_negative', 'i256::from_parts', 'arrow_buffer::bigint::mulx'],
                                 'every pair of i256 operands whose magnitudes are BOTH below 2^128 or BOTH at least 2^128, all four sign combinations (8 of the 16 sign x high-limb classes; the mixed classes are outside the claim: no verdict within an hour per class); Some(r) iff the exact signed product fits 256 bits, and then r is that product', validate, cases=cases, ob_tier='thorough', exhaustive=False))
        except M.Unsupported as e:
            results.append(dict(base_result, obligation='m_i256_checked_mul_exact', verdict='inconclusive', reason=f'translator: {e}', functions=['i256::checked_mul'], bound='', queries=0))

    for r in results:
        r.setdefault('checks_total', 0)
    log(f'  [engine M] C12 obligations done in {time.time() - t_start:.0f} s')
    return results
